#!/usr/bin/env python3
"""Build the nsim executable for one configuration from /repo's current working tree.
Usage: build.py <config> [--force]   -> prints the path of the executable.
Nothing here makes a random choice; it only compiles."""
import hashlib, os, subprocess, sys, shutil
from concurrent.futures import ThreadPoolExecutor

REPO = os.environ.get("NSIM_REPO", "/repo")
VERIF = os.path.dirname(os.path.dirname(os.path.abspath(__file__)))
SIM = os.path.join(VERIF, "sim")

COMMON = ["internal/common.c", "internal/counter.c", "internal/cv.c", "internal/debug.c", "internal/dll.c", "internal/mu.c",
          "internal/mu_wait.c", "internal/note.c", "internal/once.c", "internal/sem_wait.c", "internal/time_internal.c",
          "internal/wait.c"]
CONFIGS = {
    "c-futex": dict(lang="c", defs=[], incs=["platform/gcc_no_tls", "platform/linux", "platform/gcc", "platform/posix", "platform/x86_64"],
                    srcs=COMMON + ["platform/posix/src/nsync_panic.c", "platform/posix/src/per_thread_waiter.c", "platform/posix/src/time_rep.c",
                                   "platform/posix/src/yield.c", "platform/linux/src/nsync_semaphore_futex.c"], hdefs=[]),
    # the generic posix build: compiler.h and platform.h of platform/posix come first (gcc only supplies atomic.h), a pre-C11 language mode
    "c-mutexsem": dict(lang="c", defs=["-std=gnu99"], incs=["platform/posix", "platform/gcc", "platform/x86_64"],
                       srcs=COMMON + ["platform/posix/src/nsync_panic.c", "platform/posix/src/per_thread_waiter.c", "platform/posix/src/time_rep.c",
                                      "platform/posix/src/yield.c", "platform/posix/src/nsync_semaphore_mutex.c"], hdefs=["-DNSIM_SEM_BINARY=1"]),
    "c-semt": dict(lang="c", defs=[], incs=["platform/gcc_no_tls", "platform/linux", "platform/gcc", "platform/posix", "platform/x86_64"],
                   srcs=COMMON + ["platform/posix/src/nsync_panic.c", "platform/posix/src/per_thread_waiter.c", "platform/posix/src/time_rep.c",
                                  "platform/posix/src/yield.c", "platform/posix/src/nsync_semaphore_sem_t.c"], hdefs=[]),
    # the production way of finding a thread's waiter: a __thread variable.  Compiled with -femulated-tls, so that every access is a
    # call to __emutls_get_address, which the seam maps to per-fibre storage (gcc has no -femulated-tls on this target, so this one
    # configuration is compiled with clang 14, whose -fsanitize=thread pass calls the same hooks; it also brings platform/clang's headers in)
    "c-futex-tls": dict(lang="c", cc="clang", defs=["-femulated-tls"], incs=["platform/linux", "platform/gcc_new", "platform/clang", "platform/gcc", "platform/posix", "platform/x86_64"],
                        srcs=COMMON + ["platform/posix/src/nsync_panic.c", "platform/posix/src/per_thread_waiter.c", "platform/posix/src/time_rep.c",
                                       "platform/posix/src/yield.c", "platform/linux/src/nsync_semaphore_futex.c"], hdefs=[]),
    "c11-futex": dict(lang="c", defs=["-DNSYNC_ATOMIC_C11", "-std=gnu11"],
                      incs=["platform/gcc_no_tls", "platform/linux", "platform/c11", "platform/gcc", "platform/posix", "platform/x86_64"],
                      srcs=COMMON + ["platform/posix/src/nsync_panic.c", "platform/posix/src/per_thread_waiter.c", "platform/posix/src/time_rep.c",
                                     "platform/posix/src/yield.c", "platform/linux/src/nsync_semaphore_futex.c"], hdefs=[]),
    "cpp-futex": dict(lang="c++", defs=["-DNSYNC_USE_CPP11_TIMEPOINT", "-DNSYNC_ATOMIC_CPP11", "-std=c++11"],
                      incs=["platform/gcc_no_tls", "platform/c++11.futex", "platform/c++11", "platform/gcc", "platform/posix", "platform/x86_64"],
                      srcs=COMMON + ["platform/posix/src/per_thread_waiter.c", "platform/c++11/src/yield.cc", "platform/c++11/src/time_rep_timespec.cc",
                                     "platform/c++11/src/nsync_panic.cc", "platform/linux/src/nsync_semaphore_futex.c"], hdefs=[]),
    # the generic C++11 build (what CMake selects on macOS / Windows / unknown systems): binary semaphore on std::mutex + std::condition_variable
    "cpp-mutexsem": dict(lang="c++", defs=["-DNSYNC_USE_CPP11_TIMEPOINT", "-DNSYNC_ATOMIC_CPP11", "-std=c++11"],
                         incs=["platform/gcc_no_tls", "platform/c++11", "platform/gcc", "platform/posix", "platform/x86_64"],
                         srcs=COMMON + ["platform/posix/src/per_thread_waiter.c", "platform/c++11/src/yield.cc", "platform/c++11/src/time_rep_timespec.cc",
                                        "platform/c++11/src/nsync_panic.cc", "platform/c++11/src/nsync_semaphore_mutex.cc"], hdefs=["-DNSIM_SEM_BINARY=1"]),
}

PURE_EXTERNALS = {"_GLOBAL_OFFSET_TABLE_", "__errno_location", "__dso_handle", "__stack_chk_fail", "strlen", "strcmp", "strncmp", "memcmp", "memmove",
                  "strchr", "strrchr", "strcpy", "strncpy", "memchr", "_ZdlPv", "_ZdlPvm", "_Znwm", "_ZSt20__throw_system_errori"}

def sh(cmd):
    r = subprocess.run(cmd, stdout=subprocess.PIPE, stderr=subprocess.STDOUT, text=True)
    if r.returncode != 0:
        sys.stderr.write("FAILED: " + " ".join(cmd) + "\n" + r.stdout + "\n")
        raise SystemExit(3)
    return r.stdout

def tree_hash(cfgname, cov):
    h = hashlib.sha256()
    h.update(cfgname.encode()); h.update(b"cov" if cov else b"")
    roots = [os.path.join(REPO, d) for d in ("internal", "public", "platform")] + [SIM, os.path.abspath(__file__)]
    for root in roots:
        if os.path.isfile(root):
            h.update(open(root, "rb").read()); continue
        for dp, dn, fn in sorted(os.walk(root)):
            dn.sort()
            for f in sorted(fn):
                p = os.path.join(dp, f)
                h.update(p.encode())
                try:
                    h.update(open(p, "rb").read())
                except OSError:
                    pass
    return h.hexdigest()

def build(cfgname, force=False, cov=False):
    cfg = CONFIGS[cfgname]
    out = os.path.join(VERIF, "build", cfgname + ("-cov" if cov else ""))
    exe = os.path.join(out, "nsim")
    stamp = os.path.join(out, "stamp")
    hv = tree_hash(cfgname, cov)
    if not force and os.path.exists(exe) and os.path.exists(stamp) and open(stamp).read() == hv:
        return exe
    if os.path.exists(out):
        shutil.rmtree(out)
    os.makedirs(out)
    incs = ["-I" + os.path.join(REPO, d) for d in cfg["incs"]] + ["-I" + os.path.join(REPO, "public"), "-I" + os.path.join(REPO, "internal")]
    cc = [cfg.get("cc", "gcc")] if cfg["lang"] == "c" else ["g++", "-x", "c++"]
    nflags = ["-O1", "-g", "-fsanitize=thread", "-fno-omit-frame-pointer", "-fno-builtin-memset", "-fno-builtin-memcpy", "-w"] + cfg["defs"]
    if cov:
        nflags += ["--coverage"]
    jobs = []
    objs = []
    for i, s in enumerate(cfg["srcs"]):
        o = os.path.join(out, "n%02d_%s.o" % (i, os.path.basename(s).replace(".", "_")))
        objs.append(o)
        jobs.append(cc + nflags + incs + ["-c", os.path.join(REPO, s), "-o", o])
    hobj = os.path.join(out, "harness.o")
    hflags = ["-O1", "-g", "-fno-omit-frame-pointer", "-Wall", "-Wno-unused-function", "-Wno-unused-variable"] + cfg["defs"] + cfg["hdefs"]
    jobs.append(cc + hflags + incs + ["-I" + os.path.join(SIM, "rt"), "-I" + os.path.join(SIM, "harness"), "-c",
                                      os.path.join(SIM, "harness", "harness.c"), "-o", hobj])
    rtobjs = []
    for f in ("rt.cc", "driver.cc"):
        o = os.path.join(out, f.replace(".cc", ".o"))
        rtobjs.append(o)
        jobs.append(["g++", "-O2", "-g", "-std=c++17", "-U_FORTIFY_SOURCE", "-D_FORTIFY_SOURCE=0", "-fno-omit-frame-pointer", "-Wall", "-Wno-unused-function",
                     '-DNSIM_CONFIG="%s"' % cfgname, "-I" + os.path.join(SIM, "rt"), "-c", os.path.join(SIM, "rt", f), "-o", o])
    with ThreadPoolExecutor(max_workers=16) as ex:
        list(ex.map(sh, jobs))
    allo = os.path.join(out, "nsync_all.o")
    sh(["ld", "-r", "-o", allo] + objs)
    sh(["objcopy", "--rename-section", ".bss=nsyncbss", "--redefine-syms=" + os.path.join(SIM, "plat", "redefine-syms.txt"), allo])
    # every external reference of the nsync objects must be either modelled (nsim_sys_*, instrumentation hooks) or known to be a
    # pure function of its arguments; anything else would behave as the host does, outside the simulator: it is reported by
    # bin/check (NOTE line + evidence), never silently accepted
    und = [l.split()[-1] for l in sh(["nm", "-u", allo]).splitlines() if l.strip()]
    unmodelled = sorted(u for u in und if not (u.startswith(("nsim_sys_", "__tsan_", "Annotate", "_ZNSt8ios_base4Init", "_ZSt4cerr", "_ZStls", "__cxa_", "__gxx_", "_Unwind_"))
                                                or u in PURE_EXTERNALS))
    open(os.path.join(out, "unmodelled.txt"), "w").write("".join(u + "\n" for u in unmodelled))
    link = ["g++", "-no-pie", "-o", exe] + rtobjs + [hobj, allo]
    if cov:
        link += ["--coverage", "-Wl,--undefined=__gcov_dump"]
    sh(link)
    open(stamp, "w").write(hv)
    return exe

if __name__ == "__main__":
    args = [a for a in sys.argv[1:] if not a.startswith("--")]
    force = "--force" in sys.argv
    cov = "--cov" in sys.argv
    for c in args:
        print(build(c, force, cov))
