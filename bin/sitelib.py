"""Static list of instrumented sites (calls to __tsan_read*/write*/atomic32_* inside nsync's own functions) of one nsim executable,
with source lines; cached next to the executable."""
import json, os, re, subprocess

def static_sites(exe):
    out = os.path.dirname(exe)
    cache = os.path.join(out, "sites.json")
    if os.path.exists(cache) and os.path.getmtime(cache) >= os.path.getmtime(exe):
        return {int(k): v for k, v in json.load(open(cache)).items()}
    nsync_funcs = set()
    for line in subprocess.run(["nm", os.path.join(out, "nsync_all.o")], stdout=subprocess.PIPE, text=True).stdout.splitlines():
        f = line.split()
        if len(f) == 3 and f[1] in "Tt": nsync_funcs.add(f[2])
    dis = subprocess.run(["objdump", "-d", "--no-show-raw-insn", exe], stdout=subprocess.PIPE, text=True).stdout
    lines = dis.splitlines()
    sites = {}
    cur = None
    for i, line in enumerate(lines):
        m = re.match(r"^[0-9a-f]+ <(.+)>:$", line)
        if m: cur = m.group(1); continue
        m = re.match(r"^\s*([0-9a-f]+):\s+call\s+[0-9a-f]+ <(__tsan_(?:read|write|unaligned|atomic32)[a-z0-9_]*)>", line)
        if m and cur in nsync_funcs:
            for j in range(i + 1, min(i + 4, len(lines))):
                mm = re.match(r"^\s*([0-9a-f]+):", lines[j])
                if mm: sites[int(mm.group(1), 16)] = [cur, m.group(2)]; break
    addrs = sorted(sites)
    a2l = subprocess.run(["addr2line", "-e", exe] + ["%x" % (a - 1) for a in addrs], stdout=subprocess.PIPE, text=True).stdout.splitlines()
    for a, loc in zip(addrs, a2l):
        loc = loc.split(" ")[0]
        loc = re.sub(r"^.*?/(internal|platform|public)/", r"\1/", loc)
        sites[a].append(loc)
    json.dump({str(k): v for k, v in sites.items()}, open(cache, "w"))
    return sites
