// Demonstration of D10 on the real (non-simulated) code, generic C++11 build.  From /repo:
//   g++ -x c++ -std=c++11 -O2 -DNSYNC_USE_CPP11_TIMEPOINT -DNSYNC_ATOMIC_CPP11 -Iplatform/c++11 -Iplatform/gcc -Iplatform/posix -Iplatform/x86_64 -Ipublic -Iinternal \
//     internal/{common,counter,cv,debug,dll,mu,mu_wait,note,once,sem_wait,time_internal,wait}.c platform/posix/src/per_thread_waiter.c \
//     platform/c++11/src/{yield,time_rep_timespec,nsync_panic,nsync_semaphore_mutex}.cc D10-demo.cc -lpthread
// before bdecf6f: 'HANG' (exit 1) for the default deadline of -2^40 s; after: ETIMEDOUT at once (exit 0).
#include "nsync.h"
#include <stdio.h>
#include <unistd.h>
#include <signal.h>
#include <stdlib.h>
using namespace nsync;
static void onalarm(int){ const char m[]="HANG: timed wait with an expired deadline did not return within 5 s\n"; write(2,m,sizeof m-1); _exit(1);} 
int main(int argc,char**argv){
  signal(SIGALRM,onalarm); alarm(5);
  nsync_mu mu; nsync_cv cv; nsync_mu_init(&mu); nsync_cv_init(&cv);
  long long s = argc>1? atoll(argv[1]) : -(1LL<<40);
  nsync_time dl = nsync_time_s_ns((time_t)s,0);
  nsync_mu_lock(&mu);
  int r = nsync_cv_wait_with_deadline(&cv,&mu,dl,NULL);
  nsync_mu_unlock(&mu);
  printf("deadline %lld s -> result %d (ETIMEDOUT=%d)\n", s, r, 110);
  return r==110?0:2;
}
