/* harness.c -- scenario interpreter, reference models, oracles and family generators.
   C / C++ common subset.  NOT instrumented: every client access that the happens-before
   detector should see goes through client_rd()/client_wr(). */
#include "harness.h"
/* the mutex-word oracles use the tree's own names for the lock bits; should a change rename them, those oracles switch off
   instead of breaking the build (the occupancy models do not depend on the word) */
#if defined(MU_WLOCK) && defined(MU_RLOCK_FIELD) && defined(MU_SPINLOCK)
#define HAVE_WORD_LAYOUT 1
#else
#define HAVE_WORD_LAYOUT 0
#endif

scen_t S;
static scen_t S_saved;
int nsim_reach_probe = -1;

/* ---- probes (ids 0..7 belong to the runtime) ---- */
enum {
	PR_BLOCKED = 8, PR_WAIT_TIMEOUT, PR_WAIT_CANCEL, PR_WAIT_WOKEN, PR_TRY_FAIL, PR_TRY_OK, PR_MUWAIT_SLEPT,
	PR_COND_BY_OTHER, PR_NOTE_OBS_TRUE, PR_NOTE_FREED, PR_CTR_ZERO_WAITERS, PR_ONCE_LOSER_WAITED, PR_WAITN_HEAP,
	PR_WAITN_WOKEN, PR_SEM_FAULT, PR_UNREF_SLOW, PR_DEBUG_CONTENDED, PR_BARGE_LONGWAIT, PR_ALLOC_FAILED, PR_GRID_NEG,
	PR_CV_SIGNAL_VS_TIMEOUT, PR_READER_SHARED, PR_QUIESCE_JUDGED, PR_CV_TAKEN_BY_WAKER, PR_CLIENT_DTOR, PR_NPROBES
};
const char *nsim_probe_names[] = {
	"dead_access", "tolerated_dead_read_run_discarded", "rt2", "rt3", "rt4", "rt5", "rt6", "rt7",
	"op_blocked", "wait_returned_timeout", "wait_returned_cancel", "wait_returned_woken", "try_failed", "try_succeeded",
	"mu_wait_slept", "condition_evaluated_by_other_thread", "note_observed_notified", "note_freed",
	"counter_zero_with_waiters", "once_loser_waited", "wait_n_heap_array", "wait_n_woken_by_object", "sem_fault_injected",
	"unref_slow_unlock", "debug_call_contended", "barge_victim_long_wait", "alloc_failed", "grid_negative_deadline",
	"signal_raced_timeout", "readers_shared", "thread_judged_at_rest", "cv_wait_taken_off_queue_by_waker", "client_tls_destructor_used_nsync"
};
const int nsim_nprobes = PR_NPROBES;

/* ------------------------------------------------------------------------------------------ */
/* deadlines */
static const int64_t dl_table[DL_NCODES] = {
	0, -1000000000LL, -1, 0, 150, 600, 2500, 10000, 50000, 1000000LL, 1000000000LL, 0
};
int64_t dl_offset_ns (int code) { return dl_table[code]; }
static nsync_time time_from_ns (int64_t ns) {
	int64_t s = ns / 1000000000LL;
	int64_t r = ns - s * 1000000000LL;
	if (r < 0) { r += 1000000000LL; s -= 1; }
	return nsync_time_s_ns ((time_t) s, (unsigned) r);
}
/* absolute deadline for a code, relative to now (call time); returns -1 for no deadline */
static int64_t dl_abs_ns (int code) {
	if (code == DL_NONE) return -1;
	return nsim_now_ns () + dl_table[code];
}
static nsync_time dl_time (int64_t abs_ns) {
	if (abs_ns < 0) return nsync_time_no_deadline;
	return time_from_ns (abs_ns);
}

/* ------------------------------------------------------------------------------------------ */
/* world: the objects of the current run (arena) and their reference models (harness memory) */
typedef struct {
	nsync_mu mu;
	int refs;
} refobj_t;

static struct {
	nsync_mu *mu[MAXMU];
	nsync_cv *cv[MAXCV];
	int *var[MAXVAR];
	int *payload;                 /* C03 payload slots */
	nsync_note note[MAXNOTE];
	nsync_counter ctr[MAXCTR];
	nsync_once *once[MAXONCE];
	nsync_semaphore *sem[MAXSEM];
	refobj_t *obj[MAXOBJ];
} W;

typedef struct { int writer; int readers; int rd[NSIM_MAXSLOTS]; } hshadow_t;
static hshadow_t HS[MAXMU];
static int m_var[MAXVAR];
static int my_thread[NSIM_MAXSLOTS];    /* scenario thread index of each fibre */
/* stamps for the quiescence oracles: a waiter stamps while it still holds the mutex, just before its cv wait; a broadcaster
   stamps when it has acquired the write section inside which it broadcasts.  Both hold the mutex at their stamp, so the order
   of the stamps is the order of the sections: a broadcast section stamped after a waiter's stamp ran after that waiter had
   released the mutex inside its wait, i.e. after it was registered on the cv */
static int64_t qstep;
static struct { int active, ci; int64_t rel; } CW[MAXT];
static int64_t cv_bcast_acq[MAXCV];
static int thread_tid[MAXT];          /* fibre id of each scenario thread, -1 if not started */
static int thread_done[MAXT];
static int thread_op[MAXT];           /* index of the op being executed */

/* note model */
static struct {
	int created, freed;
	int parent;                   /* creation-time parent */
	int64_t dl_ns;                /* absolute, -1 none */
	int64_t notify_invoked;       /* step of first explicit notify invoke, -1 */
	int64_t notify_returned;      /* step of first explicit notify return, -1 */
	int64_t notify_returned_ns;   /* virtual time of that return, -1 */
	int64_t settled_ns;           /* first virtual time at which the note had to be notified and no notify was in flight anywhere, -1 */
	int notifies_in_flight;
	int64_t first_true_obs_return;/* step at which an observation "notified" first returned, -1 */
	int users;                    /* threads still going to use this note (C09) */
	int late_child;               /* created while an ancestor might already be notified */
	int64_t expiry_want;          /* minimum deadline on the creation-time chain, -1 none */
	int born_expired;             /* its own deadline had already passed when it was created */
	int pre_epoch;                /* created with a deadline before the epoch (modelled as deadline 0) */
	/* causes inherited from ancestors that have been freed since (adoption keeps them relevant) */
	int64_t inh_invoked, inh_returned, inh_dl;
} NM[MAXNOTE];
static int64_t hstep;                 /* harness event counter for invoke/return stamps */

/* counter model */
static struct { int64_t value; int64_t zero_step; int64_t zero_ns; } CM[MAXCTR];
/* once model */
static struct { int runs; int done; int returned; } OM[MAXONCE];

#define VIOL(prop, site, ...) nsim_violation (prop, V_ORACLE, site, __VA_ARGS__)

static void client_rd (const void *p) { nsim_client_read (p, 4, 0); }
static void client_wr (void *p) { nsim_client_write (p, 4, 0); }

/* ------------------------------------------------------------------------------------------ */
/* harness shadow of mutex occupancy (oracle 2 of C01) */
static void h_acquired (int mi, int writer) {
	hshadow_t *h = &HS[mi];
	int t = nsim_self ();
	if (h->writer != -1 || (writer && h->readers > 0)) {
		VIOL ("C01", "harness-shadow", "t%d holds mu%d in %s mode after acquire returned, but shadow has writer=t%d readers=%d",
		      t, mi, writer ? "write" : "read", h->writer, h->readers);
	}
	if (writer) h->writer = t; else { h->readers++; h->rd[t]++; if (h->readers > 1) nsim_probe (PR_READER_SHARED); }
	/* C03 payload of the mutex itself: whatever the previous write-mode holder wrote before it released (by unlock
	   or by blocking in a wait) must be visible now */
	client_rd (&W.payload[48 + mi]);
}
static void h_releasing (int mi, int writer) {
	hshadow_t *h = &HS[mi];
	int t = nsim_self ();
	if (writer ? (h->writer != t) : (h->rd[t] <= 0)) {
		VIOL ("C01", "harness-shadow", "t%d is about to release mu%d (%s) but shadow has writer=t%d readers=%d",
		      t, mi, writer ? "write" : "read", h->writer, h->readers);
	}
	if (writer) { client_wr (&W.payload[48 + mi]); W.payload[48 + mi]++; h->writer = -1; } else { h->readers--; h->rd[t]--; }
}

static unsigned held_checks;
/* the caller must hold W.mu[mi] in the given mode according to the in-library model and the word */
static void check_held (const char *prop, const char *what, int mi, int writer) {
	int isw = -1;
	uint32_t word;
	if (!nsim_model_holds (W.mu[mi], nsim_self (), &isw) || isw != writer) {
		VIOL (prop, "held-mode", "%s returned but the in-library model does not show t%d holding mu%d in %s mode (model writer=t%d readers=%d)",
		      what, nsim_self (), mi, writer ? "write" : "read", nsim_model_writer (W.mu[mi]), nsim_model_readers (W.mu[mi]));
	}
#if HAVE_WORD_LAYOUT
	word = *(volatile uint32_t *) &W.mu[mi]->word;
	if (writer ? ((word & MU_WLOCK) == 0 || (word & MU_RLOCK_FIELD) != 0) : ((word & MU_WLOCK) != 0 || (word & MU_RLOCK_FIELD) == 0)) {
		VIOL (prop, "held-mode", "%s returned in %s mode but the mutex word is 0x%x", what, writer ? "write" : "read", word);
	}
#else
	(void) word;
#endif
	/* the library's own view through its public assertions (they panic when the mutex is not held in that mode);
	   every fourth harness step, so that the extra atomic loads do not dominate the schedule space */
	if ((held_checks++ & 3) == 0) {
		int isr;
		if (writer) nsync_mu_assert_held (W.mu[mi]); else nsync_mu_rassert_held (W.mu[mi]);
		isr = nsync_mu_is_reader (W.mu[mi]);
		if (isr != !writer) VIOL (prop, "is-reader", "%s returned in %s mode but nsync_mu_is_reader says %d", what, writer ? "write" : "read", isr);
	}
}

/* ------------------------------------------------------------------------------------------ */
/* note model helpers */
static int note_cause_exists (int n, int64_t now) {      /* soundness: may n be notified now? */
	int a;
	for (a = n; a >= 0; a = NM[a].parent) {
		if (NM[a].notify_invoked >= 0 || NM[a].inh_invoked >= 0) return 1;
		if (NM[a].dl_ns >= 0 && NM[a].dl_ns <= now) return 1;
		if (NM[a].inh_dl >= 0 && NM[a].inh_dl <= now) return 1;
	}
	return 0;
}
static int note_must_be_notified (int n, int64_t now_at_invoke) {   /* completeness */
	int a;
	int must = 0;
	for (a = n; a >= 0; a = NM[a].parent) {
		if (NM[a].notifies_in_flight > 0) return 0;          /* something still in progress on the chain */
	}
	for (a = n; a >= 0; a = NM[a].parent) {
		if (NM[a].notify_returned >= 0 || NM[a].inh_returned >= 0) must = 1;
		if (NM[a].dl_ns >= 0 && NM[a].dl_ns <= now_at_invoke) must = 1;
		if (NM[a].inh_dl >= 0 && NM[a].inh_dl <= now_at_invoke) must = 1;
	}
	return must;
}

/* an observation of note n (is_notified, note_wait result, ECANCELED) */
static void note_observed (int n, int result, int64_t inv_step, int64_t now_at_invoke, int must_at_invoke, const char *what) {
	int64_t now = nsim_now_ns ();
	if (result) {
		nsim_probe (PR_NOTE_OBS_TRUE);
		if (!note_cause_exists (n, now)) {
			VIOL ("C08", "note-unsound", "%s reports note %d notified but no notify was invoked on its chain and no deadline has passed", what, n);
		}
		if (NM[n].first_true_obs_return < 0) NM[n].first_true_obs_return = ++hstep;
	} else {
		if (NM[n].first_true_obs_return >= 0 && NM[n].first_true_obs_return < inv_step) {
			VIOL ("C08", "note-not-monotone", "%s reports note %d NOT notified although an earlier observation saw it notified", what, n);
		}
		if (must_at_invoke) {
			VIOL ("C08", "note-incomplete", "%s reports note %d NOT notified although a notify of it or an ancestor had returned (or a deadline had passed) with nothing in flight", what, n);
		}
	}
	(void) now_at_invoke;
}

static int created_pred (void *v) { return NM[(int) (intptr_t) v].created != 0; }
static int wait_created (int n) {          /* returns 0 if the note could not be constructed (C19 runs) */
	if (!NM[n].created) nsim_wait_until (&created_pred, (void *) (intptr_t) n);
	nsim_hb_acquire (n);      /* the creating thread published the pointer */
	return NM[n].created == 1;
}

/* ------------------------------------------------------------------------------------------ */
/* wait-return oracle (C05) */
/* does a deadline (own, an ancestor's, or one inherited from a freed ancestor) contribute to note n?  Deadline-driven
   notification is lazy -- it is delivered by whoever next looks at the note, typically the waiter's own timer, which may fire a
   little after the deadline (timer granularity, relative kernel timeouts) -- so the "woken by the notification, not by its own
   timer" rules are only applied to notes that can be notified by explicit nsync_note_notify calls alone */
static int note_chain_has_deadline (int n) {
	int a;
	for (a = n; a >= 0; a = NM[a].parent) if (NM[a].dl_ns >= 0 || NM[a].inh_dl >= 0) return 1;
	return 0;
}
static void check_wait_return (const char *what, int mi, int writer, int r, int64_t dl_ns, int ni) {
	int64_t now = nsim_now_ns ();
	check_held ("C05", what, mi, writer);
	/* "once the note is notified the call needs no further wake-up": every notification posts the note's waiters before it
	   returns, so a wait that was still asleep after all notifications had returned, and was released only by its own timer,
	   was not on the note's waiter list (or was not woken from it) */
	if (ni >= 0 && NM[ni].settled_ns >= 0 && !note_chain_has_deadline (ni) && nsim_op_last_timer_wake_ns () > NM[ni].settled_ns) {
		VIOL ("C05", "cancelled-wait-slept-on", "%s with cancel note %d was released by its own timer %lld ns after every notification of the note had returned: "
		      "it slept on although the note was notified", what, ni, (long long) (nsim_op_last_timer_wake_ns () - NM[ni].settled_ns));
	}
	if (r == ETIMEDOUT) {
		nsim_probe (PR_WAIT_TIMEOUT);
		if (dl_ns < 0) VIOL ("C05", "timeout-without-deadline", "%s returned ETIMEDOUT but no deadline was given", what);
		else if (now < dl_ns) VIOL ("C05", "early-timeout", "%s returned ETIMEDOUT %lld ns before its deadline", what, (long long) (dl_ns - now));
	} else if (r == ECANCELED) {
		nsim_probe (PR_WAIT_CANCEL);
		if (ni < 0) VIOL ("C05", "cancel-without-note", "%s returned ECANCELED but no note was given", what);
		else if (!note_cause_exists (ni, now)) VIOL ("C05", "cancel-unnotified", "%s returned ECANCELED but note %d cannot be notified", what, ni);
	} else if (r == 0) {
		nsim_probe (PR_WAIT_WOKEN);
		if (dl_ns >= 0 && now >= dl_ns) nsim_probe (PR_CV_SIGNAL_VS_TIMEOUT);    /* a wake-up (or a true condition) beat an expired deadline */
	} else {
		VIOL ("C05", "bad-result", "%s returned %d", what, r);
	}
}

/* ------------------------------------------------------------------------------------------ */
/* conditions for nsync_mu_wait */
typedef struct { int mi; int var; int k; } cond_arg;
static cond_arg cargs_shared[MAXVAR][8];
static cond_arg cargs_priv[MAXT];

static void cond_context_check (const cond_arg *c) {
	/* the evaluator is the waiter itself (holding the lock) or an unlocker that still holds the
	   write bit; in both cases no OTHER fibre may be inside a write section */
	int w = nsim_model_writer (W.mu[c->mi]);
	uint32_t word = *(volatile uint32_t *) &W.mu[c->mi]->word;
	if (w >= 0 && w != nsim_self ()) {
		VIOL ("C06", "cond-during-write", "condition evaluated by t%d while t%d is inside a write section of mu%d", nsim_self (), w, c->mi);
	}
	if (nsim_fibre_in_func (nsim_self (), "nsync_mu_unlock_slow_")) nsim_probe (PR_COND_BY_OTHER);
#if HAVE_WORD_LAYOUT
	if ((word & (MU_WLOCK | MU_RLOCK_FIELD)) == 0) {
		VIOL ("C06", "cond-unlocked", "condition evaluated by t%d while mu%d is not held at all (word 0x%x)", nsim_self (), c->mi, word);
	}
#else
	(void) word;
#endif
}
static int cond_ge (const void *v) {
	const cond_arg *c = (const cond_arg *) v;
	cond_context_check (c);
	client_rd (W.var[c->var]);
	return *W.var[c->var] >= c->k;
}
static int cond_ge2 (const void *v) {      /* same meaning, different function */
	const cond_arg *c = (const cond_arg *) v;
	cond_context_check (c);
	client_rd (W.var[c->var]);
	return *W.var[c->var] >= c->k;
}
static int cond_le (const void *v) {
	const cond_arg *c = (const cond_arg *) v;
	cond_context_check (c);
	client_rd (W.var[c->var]);
	return *W.var[c->var] <= c->k;
}
static int cond_arg_equal (const void *a, const void *b) {
	const cond_arg *x = (const cond_arg *) a;
	const cond_arg *y = (const cond_arg *) b;
	return x->mi == y->mi && x->var == y->var && x->k == y->k;
}

/* ------------------------------------------------------------------------------------------ */
/* generic lock functions (treated by nsync as a foreign mutex) */
static void gen_lock (void *v) { nsync_mu_lock ((nsync_mu *) v); }
static void gen_unlock (void *v) { nsync_mu_unlock ((nsync_mu *) v); }
static void gen_rlock (void *v) { nsync_mu_rlock ((nsync_mu *) v); }
static void gen_runlock (void *v) { nsync_mu_runlock ((nsync_mu *) v); }

/* ------------------------------------------------------------------------------------------ */
/* primitive helpers */
static int do_acquire (int mi, int mode) {
	static const char *names[] = { "nsync_mu_lock", "nsync_mu_rlock", "nsync_mu_trylock", "nsync_mu_rtrylock" };
	int got = 1;
	nsync_mu *mu = W.mu[mi];
	nsim_op_begin (names[mode]);
	switch (mode) {
	case 0: nsync_mu_lock (mu); break;
	case 1: nsync_mu_rlock (mu); break;
	case 2: got = nsync_mu_trylock (mu); break;
	default: got = nsync_mu_rtrylock (mu); break;
	}
	if (mode >= 2) {
		if (nsim_op_sleeps () != 0 || nsim_op_atomics () > 40) {     /* the code makes at most 3; a bounded retry on interference is not blocking */
			nsim_violation ("C02", V_TRY_BLOCKED, names[mode], "%s slept %d times and made %d atomic operations", names[mode],
					nsim_op_sleeps (), nsim_op_atomics ());
		}
		nsim_probe (got ? PR_TRY_OK : PR_TRY_FAIL);
	} else if (nsim_op_sleeps () > 0) {
		nsim_probe (PR_BLOCKED);
	}
	nsim_op_end ();
	if (got) h_acquired (mi, mode == 0 || mode == 2);
	return got;
}
static void do_release (int mi, int writer, int without_wakeup) {
	nsync_mu *mu = W.mu[mi];
	h_releasing (mi, writer);
	if (!writer) { nsim_op_begin ("nsync_mu_runlock"); nsync_mu_runlock (mu); }
	else if (without_wakeup) { nsim_op_begin ("nsync_mu_unlock_without_wakeup"); nsync_mu_unlock_without_wakeup (mu); }
	else { nsim_op_begin ("nsync_mu_unlock"); nsync_mu_unlock (mu); }
	nsim_op_end ();
}

/* read-modify-write of a client variable inside a write section, with a window in the middle */
static void var_add (int v, int delta, int points) {
	int tmp, i;
	client_rd (W.var[v]);
	tmp = *W.var[v];
	if (tmp != m_var[v]) VIOL ("C01", "lost-update", "var%d is %d inside a write section but the model says %d", v, tmp, m_var[v]);
	for (i = 0; i < points; i++) nsim_point ();
	client_wr (W.var[v]);
	*W.var[v] = tmp + delta;
	m_var[v] += delta;
	if (*W.var[v] != m_var[v]) VIOL ("C01", "lost-update", "var%d is %d after a write section's update but the model says %d", v, *W.var[v], m_var[v]);
}
static int var_read (int v, int points) {
	int a, b, i;
	client_rd (W.var[v]);
	a = *W.var[v];
	for (i = 0; i < points; i++) nsim_point ();
	client_rd (W.var[v]);
	b = *W.var[v];
	if (a != b) VIOL ("C01", "read-section-changed", "var%d changed from %d to %d inside a read section", v, a, b);
	return b;
}

/* ------------------------------------------------------------------------------------------ */
/* ops */
static void op_cs (op_t *o) {
	int mi = o->a[0], mode = o->a[1], v = o->a[2], delta = o->a[3], rel = o->a[4], pts = o->a[5];
	int writer = (mode == 0 || mode == 2);
	if (!do_acquire (mi, mode)) return;
	/* the public observers of the lock state must agree with the mode just acquired */
	if (writer) nsync_mu_assert_held (W.mu[mi]); else nsync_mu_rassert_held (W.mu[mi]);
	if (nsync_mu_is_reader (W.mu[mi]) != !writer) VIOL ("C01", "is-reader", "nsync_mu_is_reader disagrees with the mode in which mu%d was just acquired (%s)", mi, writer ? "write" : "read");
	if (writer) {
		if (delta != 0) var_add (v, delta, pts); else (void) var_read (v, pts);
	} else {
		(void) var_read (v, pts);
	}
	do_release (mi, writer, writer && delta == 0 && rel == 1);
}

static int do_cv_wait (int mi, int ci, int writer, int style, int dlcode, int ni) {
	int r = 0;
	int64_t dl_ns = (style == 0) ? -1 : dl_abs_ns (dlcode);
	nsync_note note = NULL;
	nsync_mu *mu = W.mu[mi];
	nsync_cv *cv = W.cv[ci];
	if (style == 0) ni = -1;
	if (ni >= 0) { wait_created (ni); note = W.note[ni]; }
	{ int me = my_thread[nsim_self ()]; if (me >= 0 && me < MAXT) { CW[me].ci = ci; CW[me].rel = ++qstep; CW[me].active = 1; } }
	h_releasing (mi, writer);
	/* who takes this wait off the cv?  nsync_cv_wait_with_deadline_generic's first atomic store sets the waiter's public
	   `waiting` word; from then on the first thread to store to that word is either a waker (signal, broadcast, or the
	   mutex unlocker that finishes a transferred wake-up): the wait consumed a wake-up -- or the waiter itself, removing
	   itself after its deadline or cancellation */
	if (style != 3) { nsim_watch_clear (80 + nsim_self ()); nsim_watch_arm_on_store (80 + nsim_self (), "nsync_cv_wait_with_deadline_generic"); }
	switch (style) {
	case 0:
		nsim_op_begin ("nsync_cv_wait");
		if (writer) nsync_cv_wait (cv, mu);
		else r = nsync_cv_wait_with_deadline (cv, mu, nsync_time_no_deadline, NULL);
		break;
	case 1:
		nsim_op_begin ("nsync_cv_wait_with_deadline");
		r = nsync_cv_wait_with_deadline (cv, mu, dl_time (dl_ns), note);
		break;
	case 2:
		nsim_op_begin ("nsync_cv_wait_with_deadline_generic");
		r = nsync_cv_wait_with_deadline_generic (cv, mu, writer ? &gen_lock : &gen_rlock, writer ? &gen_unlock : &gen_runlock,
							 dl_time (dl_ns), note);
		break;
	case 4:
		/* the generic entry point given nsync's own lock functions: nsync recognises them and treats the mutex natively */
		nsim_op_begin ("nsync_cv_wait_with_deadline_generic(nsync_mu)");
		if (writer) r = nsync_cv_wait_with_deadline_generic (cv, mu, (void (*) (void *)) &nsync_mu_lock, (void (*) (void *)) &nsync_mu_unlock, dl_time (dl_ns), note);
		else r = nsync_cv_wait_with_deadline_generic (cv, mu, (void (*) (void *)) &nsync_mu_rlock, (void (*) (void *)) &nsync_mu_runlock, dl_time (dl_ns), note);
		break;
	default: {
		struct nsync_waitable_s wb;
		struct nsync_waitable_s *pw = &wb;
		int idx;
		wb.v = cv;
		wb.funcs = &nsync_cv_waitable_funcs;
		nsim_op_begin ("nsync_wait_n(cv)");
		idx = nsync_wait_n (mu, writer ? &gen_lock : &gen_rlock, writer ? &gen_unlock : &gen_runlock, dl_time (dl_ns), 1, &pw);
		r = (idx == 1) ? ETIMEDOUT : 0;
		ni = -1;
		break;
	}
	}
	if (nsim_op_sleeps () > 0) nsim_probe (PR_BLOCKED);
	if (style != 3) {
		int fw = nsim_watch_first_writer (80 + nsim_self ());
		const volatile uint32_t *ww = (const volatile uint32_t *) nsim_watch_addr (80 + nsim_self ());
		int plausible = (ww != NULL && *ww == 0);     /* the word the wait set to 1 at its start is 0 again: it behaves like `waiting` */
		nsim_watch_arm_on_store (0, NULL);
		nsim_watch_clear (80 + nsim_self ());
		if (plausible && fw >= 0 && fw != nsim_self ()) {
			nsim_probe (PR_CV_TAKEN_BY_WAKER);
			if (r != 0) VIOL ("C04", "wakeup-consumed-but-not-reported", "a cv wait on cv%d was taken off the queue by a waker (t%d) but returned %d (%s): the wake-up it consumed "
					  "is reported as a %s", ci, fw, r, r == ETIMEDOUT ? "ETIMEDOUT" : (r == ECANCELED ? "ECANCELED" : "?"), r == ETIMEDOUT ? "timeout" : "cancellation");
		}
	}
	nsim_op_end ();
	{ int me = my_thread[nsim_self ()]; if (me >= 0 && me < MAXT) CW[me].active = 0; }
	h_acquired (mi, writer);
	check_wait_return ("cv wait", mi, writer, r, dl_ns, ni);
	return r;
}

static void op_cv_await (op_t *o) {
	int mi = o->a[0], ci = o->a[1], v = o->a[2], k = o->a[3], style = o->a[4], dl = o->a[5], ni = o->a[6];
	int reader = o->a[7] & 1, consume = (o->a[7] >> 1) & 1;
	int r = 0;
	if (!do_acquire (mi, reader ? 1 : 0)) return;
	for (;;) {
		client_rd (W.var[v]);
		if (*W.var[v] >= k) break;
		r = do_cv_wait (mi, ci, !reader, style, dl, ni);
		if (r != 0) break;
	}
	if (r == 0 && consume && !reader) var_add (v, -1, 0);
	do_release (mi, !reader, 0);
}

static int64_t cv_signals_invoked[MAXCV], cv_signals_returned[MAXCV];
/* every wake-up call on a cv gets a sequence number when it is invoked; the highest number among those that have returned is kept per
   cv for broadcasts and for wake-ups of either kind: "a call numbered above what had been invoked when I registered has returned"
   means a complete wake-up call (invoke .. return) lies after the registration */
static int64_t cv_wake_seq[MAXCV], cv_bcast_ret_max[MAXCV], cv_wake_ret_max[MAXCV];
static void do_signal (int ci, int bcast) {
	int64_t seq = ++cv_wake_seq[ci];
	cv_signals_invoked[ci]++;
	if (bcast) { nsim_op_begin ("nsync_cv_broadcast"); nsync_cv_broadcast (W.cv[ci]); }
	else { nsim_op_begin ("nsync_cv_signal"); nsync_cv_signal (W.cv[ci]); }
	cv_signals_returned[ci]++;
	if (bcast && seq > cv_bcast_ret_max[ci]) cv_bcast_ret_max[ci] = seq;
	if (seq > cv_wake_ret_max[ci]) cv_wake_ret_max[ci] = seq;
	nsim_op_end ();
}
static void op_signal (op_t *o) {
	int ci = o->a[0], bcast = o->a[1], mi = o->a[2], v = o->a[3], delta = o->a[4], where = o->a[5];
	if (mi >= 0) {
		int64_t acq;
		do_acquire (mi, 0);
		acq = ++qstep;
		if (delta != 0) var_add (v, delta, 0);
		if (where != 1) { do_signal (ci, bcast); if (bcast) cv_bcast_acq[ci] = acq; }
		do_release (mi, 1, 0);
		if (where != 0) do_signal (ci, bcast);
	} else {
		do_signal (ci, bcast);
	}
}

static void op_mu_wait (op_t *o) {
	int mi = o->a[0], reader = o->a[1], ck = o->a[2], v = o->a[3], k = o->a[4], dlc = o->a[5], ni = o->a[6];
	int consume = (o->a[7] >> 1) & 1;
	int self = nsim_self ();
	int64_t dl_ns = dl_abs_ns (dlc);
	nsync_note note = NULL;
	int (*f) (const void *) = NULL;
	int (*eq) (const void *, const void *) = NULL;
	const void *arg = NULL;
	int r, truth;
	if (ni >= 0) { wait_created (ni); note = W.note[ni]; }
	if (!do_acquire (mi, reader ? 1 : 0)) return;
	switch (ck) {
	case 0: f = &cond_ge; arg = &cargs_shared[v][k & 7]; break;
	case 1: f = &cond_ge; cargs_priv[self % MAXT].mi = mi; cargs_priv[self % MAXT].var = v; cargs_priv[self % MAXT].k = k;
		arg = &cargs_priv[self % MAXT]; eq = &cond_arg_equal; break;
	case 2: f = &cond_ge2; arg = &cargs_shared[v][k & 7]; break;
	case 4: f = &cond_le; arg = &cargs_shared[v][k & 7]; break;
	default: f = NULL; arg = NULL; break;     /* NULL condition: always true */
	}
	if ((o->a[7] & 4) && !reader) {
		/* the critical section changes another variable and then ends by blocking in the wait: waiters on that
		   variable must be served just as after nsync_mu_unlock */
		int nv0 = (S.family == FAM_CCSMONO && S.nmu > 1) ? S.nvar - 1 : S.nvar;    /* the last variable belongs to the second mutex */
		var_add (nv0 > 1 ? (v + 1) % nv0 : v, 1, 0);
	}
	h_releasing (mi, !reader);
	if (dl_ns < 0 && note == NULL && (k & 1)) {
		nsim_op_begin ("nsync_mu_wait");
		nsync_mu_wait (W.mu[mi], f, arg, eq);
		r = 0;
	} else {
		nsim_op_begin ("nsync_mu_wait_with_deadline");
		r = nsync_mu_wait_with_deadline (W.mu[mi], f, arg, eq, dl_time (dl_ns), note);
	}
	if (nsim_op_sleeps () > 0) { nsim_probe (PR_BLOCKED); nsim_probe (PR_MUWAIT_SLEPT); }
	nsim_op_end ();
	h_acquired (mi, !reader);
	check_wait_return ("mu_wait", mi, !reader, r, dl_ns, ni);
	client_rd (W.var[v]);
	truth = (f == NULL) || (ck == 4 ? (*W.var[v] <= k) : (*W.var[v] >= k));
	if ((r == 0) != truth) {
		VIOL ("C05", "muwait-result", "nsync_mu_wait_with_deadline returned %d but its condition (var%d >= %d, var=%d) is %s at return",
		      r, v, k, *W.var[v], truth ? "true" : "false");
	}
	if (r == 0 && consume && !reader && f != NULL) var_add (v, ck == 4 ? 1 : -1, 0);
	do_release (mi, !reader, 0);
}

static int note_notify_ops (int n) {
	int t, j, c = 0;
	for (t = 0; t < S.nthreads; t++) for (j = 0; j < S.nops[t]; j++) if (S.ops[t][j].kind == OP_NOTIFY && S.ops[t][j].a[0] == n) c++;
	return c;
}
static void op_notify (op_t *o) {
	int n = o->a[0];
	if (!wait_created (n)) return;
	if (NM[n].notify_invoked < 0) NM[n].notify_invoked = ++hstep;
	NM[n].notifies_in_flight++;
	if (note_notify_ops (n) == 1) {         /* a payload only when its writer is unique */
		client_wr (&W.payload[n]);
		W.payload[n]++;
	}
	nsim_op_begin ("nsync_note_notify");
	nsync_note_notify (W.note[n]);
	nsim_op_end ();
	NM[n].notifies_in_flight--;
	if (NM[n].notify_returned < 0) { NM[n].notify_returned = ++hstep; NM[n].notify_returned_ns = nsim_now_ns (); }
	{
		/* when nothing is in flight any more, every note that has to be notified is settled: its waiters have been released */
		int m, inflight = 0;
		for (m = 0; m < S.nnote; m++) inflight += NM[m].notifies_in_flight;
		if (inflight == 0) for (m = 0; m < S.nnote; m++) {
			if (NM[m].created == 1 && NM[m].settled_ns < 0 && note_must_be_notified (m, nsim_now_ns ())) NM[m].settled_ns = nsim_now_ns ();
		}
	}
	{
		int r;
		int64_t inv = ++hstep;
		nsim_op_begin ("nsync_note_is_notified");
		r = nsync_note_is_notified (W.note[n]);
		nsim_op_end ();
		if (!r) VIOL ("C08", "notify-not-visible", "nsync_note_notify(%d) returned but nsync_note_is_notified says no", n);
		note_observed (n, r, inv, nsim_now_ns (), 1, "is_notified after notify");
	}
}

/* may the reader of note n's payload rely on one specific explicit notifier?  Only when the chain has
   no finite deadline and exactly one chain member is ever explicitly notified in this scenario. */
static int note_single_cause (int n) {
	int a, t, j, cause = -1, ncauses = 0;
	for (a = n; a >= 0; a = S.note_parent[a]) {      /* the creation-time chain, not the one after adoptions */
		int notified_here = 0;
		if (S.note_dl[a] != DL_NONE) return -1;
		for (t = 0; t < S.nthreads; t++) for (j = 0; j < S.nops[t]; j++) {
			if (S.ops[t][j].kind == OP_NOTIFY && S.ops[t][j].a[0] == a) notified_here++;
		}
		if (notified_here > 1) return -1;
		if (notified_here == 1) { cause = a; ncauses++; }
	}
	return ncauses == 1 ? cause : -1;
}
static void note_payload_read (int n) {
	int c = note_single_cause (n);
	if (c >= 0) client_rd (&W.payload[c]);
}

static void op_note_poll (op_t *o) {
	int n = o->a[0], times = o->a[1], i;
	if (!wait_created (n)) return;
	for (i = 0; i < times; i++) {
		int r;
		int64_t inv = ++hstep;
		int64_t now0 = nsim_now_ns ();
		int must = note_must_be_notified (n, now0);
		nsim_op_begin ("nsync_note_is_notified");
		r = nsync_note_is_notified (W.note[n]);
		nsim_op_end ();
		note_observed (n, r, inv, now0, must, "is_notified");
		if (r) { note_payload_read (n); break; }
		nsim_yield ();
	}
}

static void op_note_wait (op_t *o) {
	int n = o->a[0];
	int64_t dl_ns;
	int r;
	int64_t inv, now0;
	int must;
	if (!wait_created (n)) return;
	dl_ns = dl_abs_ns (o->a[1]);
	inv = ++hstep;
	now0 = nsim_now_ns ();
	must = note_must_be_notified (n, now0);
	nsim_op_begin ("nsync_note_wait");
	r = nsync_note_wait (W.note[n], dl_time (dl_ns));
	if (nsim_op_sleeps () > 0) nsim_probe (PR_BLOCKED);
	/* a waiter must be released by the notification, not merely find the note notified when its own timer fires: every
	   notify posts its waiters before it returns, so once nothing is in flight (settled) no waiter can still be asleep */
	if (r && NM[n].settled_ns >= 0 && !note_chain_has_deadline (n) && nsim_op_last_timer_wake_ns () > NM[n].settled_ns) {
		VIOL ("C08", "released-only-by-own-timer", "nsync_note_wait(%d) reports the note notified but the waiter slept until its own timer fired, %lld ns after "
		      "every notification of the note and its ancestors had returned", n, (long long) (nsim_op_last_timer_wake_ns () - NM[n].settled_ns));
	}
	nsim_op_end ();
	if (!r) {
		if (dl_ns < 0) VIOL ("C08", "note-wait-timeout-without-deadline", "nsync_note_wait(%d, no deadline) returned 0", n);
		else if (nsim_now_ns () < dl_ns) VIOL ("C08", "note-wait-early-timeout", "nsync_note_wait(%d) timed out %lld ns early", n, (long long) (dl_ns - nsim_now_ns ()));
	}
	note_observed (n, r, inv, now0, must, "note_wait");
	if (r) note_payload_read (n);
}

static int64_t note_chain_min_dl (int n) {
	int a;
	int64_t best = -1;
	for (a = n; a >= 0; a = NM[a].parent) {
		if (NM[a].dl_ns >= 0 && (best < 0 || NM[a].dl_ns < best)) best = NM[a].dl_ns;
		if (NM[a].inh_dl >= 0 && (best < 0 || NM[a].inh_dl < best)) best = NM[a].inh_dl;
	}
	return best;
}

/* the two "deadline not after the epoch" values a note may be created with: an instant before the epoch, and the epoch itself */
static nsync_time preepoch_time (int n) { return (n & 1) ? nsync_time_zero : nsync_time_s_ns (-5, 250000000); }
static int last_alloc_failed;     /* set by the C19 family when the constructor returned NULL */
static void create_note (int n) {
	int p = S.note_parent[n];
	int64_t dl_ns = -1;
	nsync_note parent = NULL;
	int a;
	int fails_before = nsim_alloc_failures ();
	if (p >= 0) { wait_created (p); parent = W.note[p]; }
	if (p >= 0 && NM[p].created == 2) { NM[n].created = 2; return; }      /* the parent could not be constructed */
	if (S.note_dl[n] == DL_PREEPOCH) dl_ns = 0;
	else if (S.note_dl[n] != DL_NONE) dl_ns = nsim_start_ns () + dl_offset_ns (S.note_dl[n]);
	NM[n].pre_epoch = (S.note_dl[n] == DL_PREEPOCH);
	NM[n].parent = p;
	NM[n].dl_ns = dl_ns;
	NM[n].late_child = 0;
	NM[n].born_expired = (dl_ns >= 0 && dl_ns <= nsim_now_ns () + 1000000);
	NM[n].inh_invoked = -1; NM[n].inh_returned = -1; NM[n].inh_dl = -1;
	for (a = p; a >= 0; a = NM[a].parent) {
		if (NM[a].notify_invoked >= 0 || NM[a].inh_invoked >= 0 || (NM[a].dl_ns >= 0 && NM[a].dl_ns <= nsim_now_ns () + 1000000) ||
		    (NM[a].inh_dl >= 0 && NM[a].inh_dl <= nsim_now_ns () + 1000000)) NM[n].late_child = 1;
	}
	NM[n].expiry_want = note_chain_min_dl (n);
	nsim_op_begin ("nsync_note_new");
	W.note[n] = nsync_note_new (parent, NM[n].pre_epoch ? preepoch_time (n) : dl_time (dl_ns));
	nsim_op_end ();
	if (nsim_alloc_failures () != fails_before) {
		nsim_probe (PR_ALLOC_FAILED);
		if (W.note[n] != NULL) VIOL ("C19", "ctor-not-null", "nsync_note_new returned non-NULL although its allocation failed");
		last_alloc_failed = 1;
		NM[n].created = 2;
		return;
	}
	if (W.note[n] == NULL) VIOL ("C19", "ctor-null", "nsync_note_new returned NULL although no allocation failed");
	last_alloc_failed = 0;
	/* the clock may have passed the note's own deadline while the constructor ran */
	if (dl_ns >= 0 && dl_ns <= nsim_now_ns ()) NM[n].born_expired = 1;
	/* an ancestor's notification may have started while the constructor ran */
	for (a = p; a >= 0; a = NM[a].parent) {
		if (NM[a].notify_invoked >= 0 || NM[a].inh_invoked >= 0) NM[n].late_child = 1;
		if ((NM[a].dl_ns >= 0 && NM[a].dl_ns <= nsim_now_ns ()) || (NM[a].inh_dl >= 0 && NM[a].inh_dl <= nsim_now_ns ())) NM[n].late_child = 1;
	}
	/* a child created after an ancestor was (or may have been) notified is not linked and, by
	   note.c, has expiry "zero" semantics: treat as notified-at-creation in the model */
	for (a = p; a >= 0; a = NM[a].parent) {
		if (NM[a].notify_invoked >= 0 && NM[n].notify_invoked < 0) { /* cause inherited through the chain walk in note_cause_exists */ }
	}
	NM[n].notify_invoked = -1;
	NM[n].notify_returned = -1;
	NM[n].notify_returned_ns = -1;
	NM[n].settled_ns = -1;
	NM[n].notifies_in_flight = 0;
	NM[n].first_true_obs_return = -1;
	NM[n].freed = 0;
	nsim_hb_release (n);
	NM[n].created = 1;
}

static void op_note_new (op_t *o) { create_note (o->a[0]); }

static int users_zero_pred (void *v) { return NM[(int) (intptr_t) v].users <= 0; }
static void op_note_free (op_t *o) {
	int n = o->a[0];
	int c;
	if (!wait_created (n)) return;
	/* documented contract: free only when no other thread uses that same note */
	if (NM[n].users > 0) nsim_wait_until (&users_zero_pred, (void *) (intptr_t) n);
	nsim_hb_acquire (8 + n);
	nsim_op_begin ("nsync_note_free");
	nsync_note_free (W.note[n]);
	nsim_op_end ();
	NM[n].freed = 1;
	nsim_probe (PR_NOTE_FREED);
	/* adoption in the model: children of n now hang off n's parent */
	for (c = 0; c < S.nnote; c++) if (NM[c].created == 1 && !NM[c].freed && NM[c].parent == n) {
		/* what could notify n can have reached (or, once returned, must have reached) its children */
		int64_t iv = NM[n].notify_invoked >= 0 ? NM[n].notify_invoked : NM[n].inh_invoked;
		int64_t rt = NM[n].notify_returned >= 0 ? NM[n].notify_returned : NM[n].inh_returned;
		int64_t dl = NM[n].dl_ns;
		if (NM[n].inh_dl >= 0 && (dl < 0 || NM[n].inh_dl < dl)) dl = NM[n].inh_dl;
		if (iv >= 0 && NM[c].inh_invoked < 0) NM[c].inh_invoked = iv;
		if (rt >= 0 && NM[c].inh_returned < 0) NM[c].inh_returned = rt;
		if (dl >= 0 && (NM[c].inh_dl < 0 || dl < NM[c].inh_dl)) NM[c].inh_dl = dl;
		NM[c].parent = NM[n].parent;
	}
}
/* a thread finished its last op on note n */
static void note_user_done (int n) {
	nsim_hb_release (8 + n);
	NM[n].users--;
}

static void op_note_expiry (op_t *o) {
	int n = o->a[0];
	nsync_time e;
	int64_t want;
	if (!wait_created (n)) return;
	nsim_op_begin ("nsync_note_expiry");
	e = nsync_note_expiry (W.note[n]);
	nsim_op_end ();
	want = NM[n].expiry_want;
	if (NM[n].born_expired && NM[n].dl_ns >= 0 && nsync_time_cmp (e, time_from_ns (NM[n].dl_ns)) == 0) return;   /* born notified: own deadline reported */
	if (NM[n].pre_epoch && nsync_time_cmp (e, preepoch_time (n)) == 0) return;
	if (want < 0) {
		if (nsync_time_cmp (e, nsync_time_no_deadline) != 0 && !(NM[n].late_child && nsync_time_cmp (e, nsync_time_zero) == 0)) {
			VIOL ("C08", "expiry", "nsync_note_expiry(%d) is not no_deadline although no deadline exists on its chain", n);
		}
	} else {
		if (nsync_time_cmp (e, time_from_ns (want)) != 0 && !(NM[n].late_child && nsync_time_cmp (e, nsync_time_zero) == 0)) {
			VIOL ("C08", "expiry", "nsync_note_expiry(%d) = %lld.%09ld, expected the chain minimum (start%+lld ns)", n,
			      (long long) NSYNC_TIME_SEC (e), (long) NSYNC_TIME_NSEC (e), (long long) (want - nsim_start_ns ()));
		}
	}
}

/* ---- counters ---- */
typedef struct { int kind; int ctr; int arg; int64_t res; int64_t inv, ret; } chist_t;   /* kind 0 add, 1 value, 2 wait */
static chist_t CH[MAXCTR][64];
static int nCH[MAXCTR];

static void ctr_payload_read (void);
static void op_ctr_add (op_t *o) {
	int c = o->a[0], delta = o->a[1];
	int64_t inv = ++hstep;
	uint32_t r;
	if (delta != 0) {
		client_wr (&W.payload[16 + nsim_self ()]);
		W.payload[16 + nsim_self ()]++;
	}
	nsim_op_begin ("nsync_counter_add");
	r = nsync_counter_add (W.ctr[c], delta);
	nsim_op_end ();
	if (nCH[c] < 64) { chist_t *h = &CH[c][nCH[c]++]; h->kind = delta == 0 ? 1 : 0; h->ctr = c; h->arg = delta; h->res = r; h->inv = inv; h->ret = ++hstep; }
	if (r == 0 && delta != 0 && CM[c].zero_step < 0) { CM[c].zero_step = hstep; CM[c].zero_ns = nsim_now_ns (); }
	if (r == 0 && delta == 0) ctr_payload_read ();
}
static void ctr_payload_read (void) {
	int t;
	for (t = 0; t < NSIM_MAXSLOTS; t++) client_rd (&W.payload[16 + t]);
}
static void op_ctr_value (op_t *o) {
	int c = o->a[0];
	int64_t inv = ++hstep;
	uint32_t r;
	nsim_op_begin ("nsync_counter_value");
	r = nsync_counter_value (W.ctr[c]);
	nsim_op_end ();
	if (nCH[c] < 64) { chist_t *h = &CH[c][nCH[c]++]; h->kind = 1; h->ctr = c; h->arg = 0; h->res = r; h->inv = inv; h->ret = ++hstep; }
	if (r == 0) ctr_payload_read ();
}
static void op_ctr_wait (op_t *o) {
	int c = o->a[0];
	int64_t dl_ns = dl_abs_ns (o->a[1]);
	uint32_t r;
	int64_t inv = ++hstep;
	int zero_before = (CM[c].zero_step >= 0);
	if (o->a[2] && S.nnote > 0 && W.note[0] != NULL) {
		/* "through nsync_wait_n": the counter together with a note that is never notified, in either order */
		struct nsync_waitable_s wo[2], *pwo[2];
		int ci = (o->a[2] == 2) ? 1 : 0, idx;
		wo[ci].v = W.ctr[c]; wo[ci].funcs = &nsync_counter_waitable_funcs;
		wo[1 - ci].v = W.note[0]; wo[1 - ci].funcs = &nsync_note_waitable_funcs;
		pwo[0] = &wo[0]; pwo[1] = &wo[1];
		nsim_op_begin ("nsync_wait_n");
		idx = nsync_wait_n (NULL, NULL, NULL, dl_time (dl_ns), 2, pwo);
		if (idx == 1 - ci) VIOL ("C10", "wait-n-wrong-index", "nsync_wait_n over {counter, never-notified note} returned the note's index %d", idx);
		r = (idx == ci) ? 0 : 1;
	} else {
	nsim_op_begin ("nsync_counter_wait");
	r = nsync_counter_wait (W.ctr[c], dl_time (dl_ns));
	}
	if (nsim_op_sleeps () > 0) { nsim_probe (PR_BLOCKED); nsim_probe (PR_CTR_ZERO_WAITERS); }
	/* (only for nsync_counter_wait itself: through nsync_wait_n the scan of the other object may briefly queue for that object's
	   internal mutex against other callers, in whichever order the objects are scanned -- not the counter's doing) */
	if (r == 0 && CM[c].zero_ns >= 0 && nsim_op_last_timer_wake_ns () > CM[c].zero_ns) {
		VIOL ("C10", "released-only-by-own-timer", "a counter wait reports zero but the waiter slept until its own timer fired, %lld ns after the add that "
		      "produced zero had returned (it releases every waiter before it returns)", (long long) (nsim_op_last_timer_wake_ns () - CM[c].zero_ns));
	}
	if (zero_before && nsim_op_sleeps () > 0 && !(o->a[2] != 0 && S.nnote > 0)) {
		VIOL ("C10", "wait-after-zero-blocked", "nsync_counter_wait started after an add had returned 0 but slept %d times", nsim_op_sleeps ());
	}
	nsim_op_end ();
	/* "returned 0 only if the counter reached zero" is decided over the history at the end (an add that
	   produced zero may not have returned yet) */
	/* kind 3: through nsync_wait_n only "zero" / "not zero" is learnt, not the value */
	if (nCH[c] < 64) { chist_t *h = &CH[c][nCH[c]++]; h->kind = (o->a[2] && S.nnote > 0) ? 3 : 2; h->ctr = c; h->arg = 0; h->res = r; h->inv = inv; h->ret = ++hstep; }
	if (r == 0) {
		ctr_payload_read ();
	} else {
		if (dl_ns < 0) VIOL ("C10", "wait-timeout-without-deadline", "nsync_counter_wait(%d, no deadline) returned %u", c, r);
		else if (nsim_now_ns () < dl_ns) VIOL ("C10", "wait-early-timeout", "nsync_counter_wait(%d) returned %u %lld ns before its deadline", c, r,
						       (long long) (dl_ns - nsim_now_ns ()));
	}
}

/* ---- once ---- */
static int once_cur_obj;      /* argument for the no-arg variants */
static void once_farg (void *v);
static void once_body (int oi) {
	int i;
	OM[oi].runs++;
	if (OM[oi].runs > 1) VIOL ("C07", "once-ran-twice", "the once function of once%d ran %d times", oi, OM[oi].runs);
	for (i = 0; i < S.p[0]; i++) nsim_point ();
	/* a slow initialisation: a quarter of a second of virtual time in slices, so that callers that arrive meanwhile go through every
	   stage of whatever waiting scheme the library uses (today: timed waits of 10, 20, ... 50 ms) and still return when it is done */
	for (i = 0; i < S.p[4]; i++) { nsim_advance_ns (30000000); nsim_yield (); }
	if (S.p[1] && W.mu[0]) {          /* the once function may itself use an unrelated mutex */
		nsync_mu_lock (W.mu[0]);
		nsim_point ();
		nsync_mu_unlock (W.mu[0]);
	}
	if (oi == 0 && S.p[2] > 0 && S.p[2] < S.nonce) {
		/* lazy initialisation that depends on another lazily initialised object: the function of once0 calls
		   nsync_run_once* on another nsync_once (once1 shares once0's internal lock, once2 does not) */
		int inner = S.p[2];
		if (S.p[3]) nsync_run_once_arg_spin (W.once[inner], &once_farg, (void *) (intptr_t) inner);
		else nsync_run_once_arg (W.once[inner], &once_farg, (void *) (intptr_t) inner);
		if (!OM[inner].done) VIOL ("C07", "once-returned-early", "a nested call on once%d returned before the once function completed (runs=%d)", inner, OM[inner].runs);
		client_rd (&W.payload[32 + inner]);
	}
	client_wr (&W.payload[32 + oi]);
	W.payload[32 + oi] = 1;
	OM[oi].done = 1;
}
static void once_f0 (void) { once_body (0); }
static void once_f1 (void) { once_body (1); }
static void once_f2 (void) { once_body (2); }
static void once_farg (void *v) { once_body ((int) (intptr_t) v); }
static void op_once (op_t *o) {
	int oi = o->a[0], variant = o->a[1];
	void (*f0[3]) (void);
	int already = OM[oi].returned;
	f0[0] = &once_f0; f0[1] = &once_f1; f0[2] = &once_f2;
	(void) once_cur_obj;
	nsim_op_begin ("nsync_run_once");
	switch (variant) {
	case 0: nsync_run_once (W.once[oi], f0[oi]); break;
	case 1: nsync_run_once_arg (W.once[oi], &once_farg, (void *) (intptr_t) oi); break;
	case 2: nsync_run_once_spin (W.once[oi], f0[oi]); break;
	default: nsync_run_once_arg_spin (W.once[oi], &once_farg, (void *) (intptr_t) oi); break;
	}
	if (already && nsim_op_sleeps () > 0) {
		VIOL ("C07", "once-done-blocked", "a call on once%d made after another call had returned slept %d times", oi, nsim_op_sleeps ());
	}
	if (nsim_op_sleeps () > 0) nsim_probe (PR_ONCE_LOSER_WAITED);
	nsim_op_end ();
	if (!OM[oi].done) VIOL ("C07", "once-returned-early", "a call on once%d returned before the once function completed (runs=%d)", oi, OM[oi].runs);
	OM[oi].returned = 1;
	client_rd (&W.payload[32 + oi]);
}

/* ---- dispatch ---- */
static void op_wait_n (op_t *o);
static void op_debug (op_t *o);
static void op_sem (op_t *o);
static void op_unref (op_t *o);
static void op_cv_wait_once (op_t *o);
static void op_barge (op_t *o);
static void op_timed (op_t *o);
static void thread_body (void *arg);
static int grid_event_done;

static int af_uses_dead_note (const op_t *o);
static void run_op (op_t *o) {
	int i;
	if (af_uses_dead_note (o)) return;
	switch (o->kind) {
	case OP_CS: op_cs (o); break;
	case OP_CV_AWAIT: op_cv_await (o); break;
	case OP_SIGNAL: op_signal (o); break;
	case OP_MU_WAIT: op_mu_wait (o); break;
	case OP_NOTIFY: op_notify (o); break;
	case OP_NOTE_POLL: op_note_poll (o); break;
	case OP_NOTE_WAIT: op_note_wait (o); break;
	case OP_NOTE_NEW: op_note_new (o); break;
	case OP_NOTE_FREE: op_note_free (o); break;
	case OP_NOTE_EXPIRY: op_note_expiry (o); break;
	case OP_CTR_ADD: op_ctr_add (o); break;
	case OP_CTR_VALUE: op_ctr_value (o); break;
	case OP_CTR_WAIT: op_ctr_wait (o); break;
	case OP_ONCE: op_once (o); break;
	case OP_WAIT_N: op_wait_n (o); break;
	case OP_DEBUG: op_debug (o); break;
	case OP_SEM_P: case OP_SEM_PD: case OP_SEM_V: op_sem (o); break;
	case OP_YIELD: for (i = 0; i < o->a[0]; i++) nsim_yield (); break;
	case OP_SPAWN:
		if (thread_tid[o->a[0]] < 0) thread_tid[o->a[0]] = nsim_spawn (&thread_body, (void *) (intptr_t) o->a[0]);
		break;
	case OP_UNREF: op_unref (o); break;
	case OP_CV_WAIT_ONCE: op_cv_wait_once (o); break;
	case OP_BARGE: op_barge (o); break;
	case OP_TIMED: op_timed (o); break;
	default: break;
	}
}

/* which note does an op use (for the C09 users count) */
static int op_note_used (const op_t *o, int which) {
	switch (o->kind) {
	case OP_NOTIFY: case OP_NOTE_POLL: case OP_NOTE_WAIT: case OP_NOTE_EXPIRY: return which == 0 ? o->a[0] : -1;
	case OP_CV_AWAIT: case OP_MU_WAIT: return which == 0 ? o->a[6] : -1;
	case OP_CV_WAIT_ONCE: return which == 0 ? o->a[4] : -1;
	case OP_NOTE_NEW: return which == 0 ? S.note_parent[o->a[0]] : -1;
	case OP_WAIT_N:
		if (which < o->a[0] && which < 5 && (o->a[1 + which] >> 4) == 0) return o->a[1 + which] & 15;
		return -1;
	default: return -1;
	}
}

/* a client thread-local object whose destructor itself uses nsync (LOCK-ONLY with S.p[5]): it runs at thread exit, in an order
   relative to nsync's own per-thread destructor that POSIX leaves open (the runtime makes it a recorded choice) */
static unsigned client_key;
static int client_key_made;
static void client_tls_dtor (void *v) {
	int reader = (S.p[5] == 2);
	(void) v;
	nsim_probe (PR_CLIENT_DTOR);
	if (do_acquire (0, reader ? 1 : 0)) {
		nsim_point ();
		do_release (0, !reader, 0);
	}
}
static void thread_body (void *arg) {
	int t = (int) (intptr_t) arg;
	int j, w;
	my_thread[nsim_self ()] = t;
	thread_tid[t] = nsim_self ();
	if (client_key_made) nsim_sys_pthread_setspecific (client_key, (void *) (intptr_t) (t + 1));
	for (j = 0; j < S.nops[t]; j++) {
		thread_op[t] = j;
		if (S.family == FAM_GRID && (t == 1 || S.ops[t][j].kind != OP_TIMED) && S.ops[t][j].kind != OP_YIELD) grid_event_done = 1;
		run_op (&S.ops[t][j]);
		/* last use of a note by this thread?  (C09 contract bookkeeping) */
		for (w = 0; w < 5; w++) {
			int n = op_note_used (&S.ops[t][j], w);
			int later = 0, jj, ww;
			if (n < 0) continue;
			for (jj = j + 1; jj < S.nops[t]; jj++) for (ww = 0; ww < 5; ww++) if (op_note_used (&S.ops[t][jj], ww) == n) later = 1;
			for (ww = 0; ww < w; ww++) if (op_note_used (&S.ops[t][j], ww) == n) later = 1;   /* counted once per op */
			if (!later) note_user_done (n);
		}
	}
	thread_op[t] = S.nops[t];
	thread_done[t] = 1;
}

/* ------------------------------------------------------------------------------------------ */
/* world setup */
/* COUNTER family with S.p[6]: the counter starts 2^31 higher and one thread takes that stake away in a single add(INT32_MIN),
   so that waits and adds also run while the value does not fit a signed 32-bit integer */
static uint32_t ctr_initial (int c) {
	return (uint32_t) S.ctr_init[c] + ((S.family == FAM_COUNTER && S.p[6]) ? 0x80000000u : 0u);
}
static void harness_state_reset (void);
static void world_init (void) {
	int i, t, j, w;
	memset (&W, 0, sizeof W);
	memset (HS, 0, sizeof HS);
	memset (m_var, 0, sizeof m_var);
	memset (NM, 0, sizeof NM);
	memset (CM, 0, sizeof CM);
	memset (OM, 0, sizeof OM);
	memset (nCH, 0, sizeof nCH);
	memset (cv_signals_invoked, 0, sizeof cv_signals_invoked);
	memset (cv_signals_returned, 0, sizeof cv_signals_returned);
	memset (cv_wake_seq, 0, sizeof cv_wake_seq); memset (cv_bcast_ret_max, 0, sizeof cv_bcast_ret_max); memset (cv_wake_ret_max, 0, sizeof cv_wake_ret_max);
	hstep = 0; held_checks = 0; qstep = 0;
	memset (CW, 0, sizeof CW); memset (cv_bcast_acq, 0, sizeof cv_bcast_acq);
	harness_state_reset ();
	last_alloc_failed = 0;
	for (i = 0; i < MAXMU; i++) HS[i].writer = -1;
	for (t = 0; t < MAXT; t++) { thread_tid[t] = -1; thread_done[t] = 0; thread_op[t] = 0; }
#if HAVE_WORD_LAYOUT
	nsim_cfg.mu_wlock = MU_WLOCK;
	nsim_cfg.mu_rlock_field = MU_RLOCK_FIELD;
	nsim_cfg.mu_spinlock = MU_SPINLOCK;
#else
	nsim_cfg.mu_wlock = 0; nsim_cfg.mu_rlock_field = 0; nsim_cfg.mu_spinlock = 0;      /* word-based oracles off */
#endif
	client_key_made = 0;
	if (S.family == FAM_LOCKONLY && S.p[5]) client_key_made = (nsim_sys_pthread_key_create (&client_key, &client_tls_dtor) == 0);
	for (i = 0; i < S.nmu; i++) {
		W.mu[i] = (nsync_mu *) nsim_alloc (sizeof (nsync_mu));
		nsync_mu_init (W.mu[i]);
		nsim_register_mu (W.mu[i]);
	}
	for (i = 0; i < S.ncv; i++) {
		W.cv[i] = (nsync_cv *) nsim_alloc (sizeof (nsync_cv));
		nsync_cv_init (W.cv[i]);
	}
	for (i = 0; i < S.nvar; i++) W.var[i] = (int *) nsim_alloc (sizeof (int));
	W.payload = (int *) nsim_alloc (64 * sizeof (int));
	for (i = 0; i < S.nonce; i++) {
		/* two onces 64 words apart share an once_sync[] slot, a third does not */
		static nsync_once *base;
		if (i == 0) base = (nsync_once *) nsim_alloc (sizeof (nsync_once) * 200);
		W.once[i] = base + (i == 0 ? 0 : (i == 1 ? 64 : 7));
	}
	for (i = 0; i < S.nsem; i++) {
		W.sem[i] = (nsync_semaphore *) nsim_alloc (sizeof (nsync_semaphore));
		nsync_mu_semaphore_init (W.sem[i]);
	}
	for (i = 0; i < S.nobj; i++) {
		W.obj[i] = (refobj_t *) nsim_alloc (sizeof (refobj_t));
		nsync_mu_init (&W.obj[i]->mu);
	}
	for (i = 0; i < MAXNOTE; i++) { NM[i].inh_invoked = -1; NM[i].inh_returned = -1; NM[i].inh_dl = -1; NM[i].parent = -1; NM[i].dl_ns = -1; NM[i].notify_invoked = -1; NM[i].notify_returned = -1; NM[i].notify_returned_ns = -1; NM[i].settled_ns = -1; NM[i].first_true_obs_return = -1; }
	for (i = 0; i < MAXCTR; i++) { CM[i].zero_step = -1; CM[i].zero_ns = -1; }
	for (i = 0; i < S.nvar; i++) for (j = 0; j < 8; j++) { cargs_shared[i][j].mi = 0; cargs_shared[i][j].var = i; cargs_shared[i][j].k = j; }
	/* users per note */
	for (t = 0; t < S.nthreads; t++) for (i = 0; i < S.nnote; i++) {
		int uses = 0;
		for (j = 0; j < S.nops[t]; j++) for (w = 0; w < 5; w++) if (op_note_used (&S.ops[t][j], w) == i) uses = 1;
		NM[i].users += uses;
	}
	for (i = 0; i < S.nnote; i++) if (S.note_pre[i]) create_note (i);
	for (i = 0; i < S.nctr; i++) {
		int fails_before = nsim_alloc_failures ();
		nsim_op_begin ("nsync_counter_new");
		W.ctr[i] = nsync_counter_new (ctr_initial (i));
		nsim_op_end ();
		if (nsim_alloc_failures () != fails_before) {
			nsim_probe (PR_ALLOC_FAILED);
			if (W.ctr[i] != NULL) VIOL ("C19", "ctor-not-null", "nsync_counter_new returned non-NULL although its allocation failed");
		} else if (W.ctr[i] == NULL) VIOL ("C19", "ctor-null", "nsync_counter_new returned NULL although no allocation failed");
		CM[i].value = (int64_t) ctr_initial (i);
		if (ctr_initial (i) == 0) { CM[i].zero_step = 0; CM[i].zero_ns = nsim_start_ns (); }
	}
}

static int spawned_or_dead_pred (void *v) {
	int t = (int) (intptr_t) v, u;
	if (thread_tid[t] >= 0) return 1;
	for (u = 0; u < S.nthreads; u++) if (thread_tid[u] >= 0 && !thread_done[u]) return 0;
	return 1;
}
static void generic_controller (void *arg) {
	int t;
	(void) arg;
	world_init ();
	for (t = 0; t < S.nthreads; t++) if (S.start[t] == 0) thread_tid[t] = nsim_spawn (&thread_body, (void *) (intptr_t) t);
	for (t = 0; t < S.nthreads; t++) {
		/* threads started by OP_SPAWN: wait until they exist (or can no longer be started) */
		if (thread_tid[t] < 0) nsim_wait_until (&spawned_or_dead_pred, (void *) (intptr_t) t);
		if (thread_tid[t] >= 0) nsim_join (thread_tid[t]);
	}
}

/* MU-MIX, staged variant (S.p[5]): the finisher (a writer that changes every variable and broadcasts on every cv, which would
   rescue any thread that lost a wake-up) is started only after everything else has come to rest, and the state at rest is
   judged first:
     - a thread asleep inside nsync_mu_lock / nsync_mu_rlock while no mutex is held by anybody has lost a lock wake-up (C02);
     - a thread asleep in nsync_mu_wait whose condition is true, the mutex free: every change in this family ends with
       nsync_mu_unlock (unlock_without_wakeup only after sections that change nothing), so it has lost a wake-up (C06);
     - a thread asleep in a cv wait although a broadcast was issued inside a write section that began after that thread was
       registered (stamp argument above) was missed by the broadcast (C04).
   Threads with timers are never at rest, so only untimed waits are judged. */
static void quiescence_oracles (int finisher) {
	int i, t;
	for (i = 0; i < S.nmu; i++) if (nsim_model_writer (W.mu[i]) >= 0 || nsim_model_readers (W.mu[i]) > 0) return;
	for (t = 0; t < S.nthreads; t++) {
		int tid = thread_tid[t], st;
		const char *opn;
		op_t *o;
		if (t == finisher || tid < 0 || thread_done[t] || thread_op[t] >= S.nops[t]) continue;
		st = nsim_fibre_state (tid);
		if (st != 2 && st != 4) continue;
		opn = nsim_fibre_op (tid);
		o = &S.ops[t][thread_op[t]];
		nsim_probe (PR_QUIESCE_JUDGED);
		if (strcmp (opn, "nsync_mu_lock") == 0 || strcmp (opn, "nsync_mu_rlock") == 0) {
			VIOL ("C02", "asleep-on-free-mutex", "at rest thread %d is asleep in %s although no mutex is held and nobody is running", t, opn);
		} else if (o->kind == OP_MU_WAIT && strncmp (opn, "nsync_mu_wait", 13) == 0) {
			int ck = o->a[2], v = o->a[3], k = o->a[4];
			int truth = (ck == 3) || (ck == 4 ? (*W.var[v] <= k) : (*W.var[v] >= k));
			if (truth) VIOL ("C06", "true-condition-asleep", "at rest thread %d is asleep in %s although its condition (var%d %s %d, var=%d) is true, "
					 "the mutex is free and every change ended with nsync_mu_unlock", t, opn, v, ck == 4 ? "<=" : ">=", k, *W.var[v]);
		} else if (CW[t].active && cv_bcast_acq[CW[t].ci] > CW[t].rel) {
			VIOL ("C04", "broadcast-missed-waiter", "at rest thread %d is asleep in %s on cv%d although a broadcast was issued inside a write section "
			      "that began after the thread had released the mutex in that wait", t, opn, CW[t].ci);
		}
	}
}
static void mumix_controller (void *arg) {
	int t, f = S.p[7];
	if (!(S.family == FAM_MUMIX && S.p[5] && f >= 0 && f < S.nthreads)) { generic_controller (arg); return; }
	world_init ();
	for (t = 0; t < S.nthreads; t++) if (t != f && S.start[t] == 0) thread_tid[t] = nsim_spawn (&thread_body, (void *) (intptr_t) t);
	nsim_quiesce ();
	if (nsim_quiesced_ok ()) quiescence_oracles (f);
	thread_tid[f] = nsim_spawn (&thread_body, (void *) (intptr_t) f);
	for (t = 0; t < S.nthreads; t++) if (thread_tid[t] >= 0) nsim_join (thread_tid[t]);
}

#include "ops2.inc"
#include "scenario.inc"
#include "families.inc"
#include "families2.inc"
