/* harness.h -- scenario data model shared by the harness translation units.
   C / C++ common subset: compiled as C for the C configurations and as C++ for cpp-futex. */
#ifndef HARNESS_H_
#define HARNESS_H_

#include "nsync_cpp.h"
#include "platform.h"
#include "compiler.h"
#include "cputype.h"
#include "nsync.h"
#include "dll.h"
#include "sem.h"
#include "wait_internal.h"
#include "common.h"
#include "atomic.h"
#include "nsim.h"

NSYNC_CPP_USING_

#define MAXT 8
#define MAXOPS 10
#define NARGS 8
#define MAXMU 3
#define MAXCV 3
#define MAXVAR 4
#define MAXNOTE 8
#define MAXCTR 3
#define MAXONCE 3
#define MAXSEM 2
#define MAXOBJ 3      /* refcounted objects (C13) */

enum {
	OP_NONE = 0,
	OP_CS,          /* a0 mu, a1 mode(0 lock,1 rlock,2 trylock,3 rtrylock), a2 var, a3 delta, a4 release(0 unlock,1 unlock_without_wakeup), a5 inner points */
	OP_CV_AWAIT,    /* a0 mu, a1 cv, a2 var, a3 k, a4 style, a5 dl, a6 note(-1), a7 flags: bit0 reader, bit1 consume */
	OP_SIGNAL,      /* a0 cv, a1 broadcast, a2 mu(-1 none), a3 var, a4 delta, a5 where(0 inside,1 after,2 both) */
	OP_MU_WAIT,     /* a0 mu, a1 mode(0 w,1 r), a2 condkind, a3 var, a4 k, a5 dl, a6 note(-1), a7 flags: bit1 consume */
	OP_NOTIFY,      /* a0 note */
	OP_NOTE_POLL,   /* a0 note, a1 times */
	OP_NOTE_WAIT,   /* a0 note, a1 dl */
	OP_NOTE_NEW,    /* a0 slot (parent and deadline from the scenario's note table) */
	OP_NOTE_FREE,   /* a0 slot */
	OP_NOTE_EXPIRY, /* a0 slot */
	OP_CTR_ADD,     /* a0 ctr, a1 delta */
	OP_CTR_VALUE,   /* a0 ctr */
	OP_CTR_WAIT,    /* a0 ctr, a1 dl */
	OP_ONCE,        /* a0 once, a1 variant(0 run_once,1 arg,2 spin,3 arg_spin) */
	OP_WAIT_N,      /* a0 count, a1..a5 objects (kind*16+idx; kind 0 note,1 counter,2 cv), a6 mu(-1), a7 dl */
	OP_DEBUG,       /* a0 which(0 mu,1 mu+waiters,2 cv,3 cv+waiters), a1 obj, a2 n, a3 repeats */
	OP_SEM_P,       /* a0 sem */
	OP_SEM_PD,      /* a0 sem, a1 dl */
	OP_SEM_V,       /* a0 sem */
	OP_YIELD,       /* a0 times */
	OP_SPAWN,       /* a0 thread */
	OP_UNREF,       /* a0 obj, a1 release kind(0 unlock,1 unlock_without_wakeup), a2 inner points */
	OP_CV_WAIT_ONCE,/* a0 mu, a1 cv, a2 style, a3 dl, a4 note, a5 reader  (CV-COVER) */
	OP_BARGE,       /* C14 victim / barger roles, see fam_barge.c */
	OP_TIMED,       /* C15 grid entry, see fam_deadline */
	OP_NKINDS
};

enum {
	FAM_LOCKONLY = 0, FAM_MUMIX, FAM_CVMONITOR, FAM_CVCOVER, FAM_TIMEDWAIT, FAM_CCSMONO, FAM_CCSBUF, FAM_ONCE, FAM_NOTETREE,
	FAM_NOTEFAMILY, FAM_COUNTER, FAM_WAITN, FAM_SEM, FAM_REFCOUNT, FAM_WAKERFRAME, FAM_BARGE, FAM_BARGERAND, FAM_GRID,
	FAM_DEBUGCONC, FAM_DEBUGBUF, FAM_ALLOCFAIL, FAM_TIMEDSTARVE, FAM_READDEPTH, FAM_N
};

typedef struct { int kind; int a[NARGS]; } op_t;

typedef struct {
	int family;
	int nthreads;
	int nops[MAXT];
	int start[MAXT];          /* 0: started by the controller; 1: started by an OP_SPAWN */
	op_t ops[MAXT][MAXOPS];
	int nmu, ncv, nvar, nnote, nctr, nonce, nsem, nobj;
	int note_parent[MAXNOTE]; /* -1 none */
	int note_dl[MAXNOTE];     /* deadline code relative to run start */
	int note_pre[MAXNOTE];    /* 1: created by the controller before threads start */
	int ctr_init[MAXCTR];
	int p[8];                 /* family parameters */
} scen_t;

extern scen_t S;

/* deadline codes */
#define DL_NONE 0
#define DL_NCODES 12
#define DL_PREEPOCH 11      /* notes only: a deadline before the epoch (tv_sec < 0); modelled as "time zero" */
int64_t dl_offset_ns (int code);

#endif
