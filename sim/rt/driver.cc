// driver.cc -- worker processes, batch statistics, gate / minimise / replay.  Uninstrumented.
#include "rt_internal.h"
#include <errno.h>
#include <stdlib.h>
#include <string.h>
#include <string>
#include <sys/stat.h>
#include <sys/wait.h>
#include <time.h>
#include <unistd.h>
#include <unordered_set>
#include <algorithm>

#ifndef NSIM_CONFIG
#define NSIM_CONFIG "unknown"
#endif

extern "C" void __gcov_dump (void) __attribute__ ((weak));
static bool all_results = false;
static double wall () {
	struct timespec ts;
	clock_gettime (CLOCK_MONOTONIC, &ts);
	return ts.tv_sec + ts.tv_nsec * 1e-9;
}

static const struct nsim_family *find_family (const char *name) {
	for (int i = 0; i < nsim_nfamilies; i++) if (strcmp (nsim_families[i].name, name) == 0) return &nsim_families[i];
	return NULL;
}

struct RunOut {
	int verdict;
	Violation viol;
	uint64_t hash;
	int64_t steps;
};

static long long cur_index; static uint64_t cur_base;
static uint64_t run_seed (uint64_t base, uint64_t idx) { cur_index = (long long) idx; cur_base = base; return rt_mix (base, idx + 1); }

// one run in seed mode (replay == NULL) or with an explicit choice list; scenario: generated (gen=true) or current
static RunOut do_run (const struct nsim_family *fam, uint64_t seed, bool gen, const std::vector<uint16_t> *replay) {
	rt_reset_run (seed);
	g.run_index = cur_index; g.base_seed = cur_base;
	g.replay_mode = replay != NULL;
	if (replay) g.replay = *replay;
	if (gen) fam->generate ();
	fam->configure ();
	int v = rt_run (fam);
	if (g.viol.cls == V_NONE && v != RV_LIMIT) fam->end_state (v);
	RunOut o;
	o.verdict = g.viol.cls != V_NONE ? RV_VIOLATION : v;
	o.viol = g.viol;
	o.hash = g.hash;
	o.steps = g.steps;
	return o;
}

static std::string sig_of (const Violation &v) {
	return std::string (v.prop) + "|" + rt_class_name (v.cls) + "|" + v.site;
}

// ------------------------------------------------------------------------------------------
struct Stats {
	int64_t runs = 0, finished = 0, stuck = 0, noprog = 0, viol = 0, drained = 0, limit = 0;
	int64_t steps = 0, simtime_ns = 0, switches = 0, natomics = 0, futex_blocks = 0, clock_jumps = 0, idle_jumps = 0;
	int64_t faults[CH_NKINDS + 4] = { 0 };
	int64_t runs_no_fault = 0, nontrivial = 0;
	int64_t probe_runs[MAXPROBES] = { 0 };
	int64_t pol[4] = { 0 };
	int64_t fibres = 0, acquires = 0, frees = 0;
	std::unordered_set<uint64_t> hashes;
	std::vector<std::string> samples;
};

static void json_escape (FILE *fp, const char *s) {
	fputc ('"', fp);
	for (; *s; s++) {
		if (*s == '"' || *s == '\\') { fputc ('\\', fp); fputc (*s, fp); }
		else if (*s == '\n') fputs ("\\n", fp);
		else if ((unsigned char) *s < 0x20) fprintf (fp, "\\u%04x", *s);
		else fputc (*s, fp);
	}
	fputc ('"', fp);
}

static void write_stats (const char *path, const Stats &s, int reach_probe) {
	FILE *fp = fopen (path, "w");
	if (!fp) return;
	fprintf (fp, "{\"discarded_limit\":%lld,", (long long) s.limit);
	fprintf (fp, "\"runs\":%lld,\"finished\":%lld,\"stuck\":%lld,\"no_progress\":%lld,\"violations\":%lld,\"drained\":%lld,",
		 (long long) s.runs, (long long) s.finished, (long long) s.stuck, (long long) s.noprog, (long long) s.viol, (long long) s.drained);
	fprintf (fp, "\"steps\":%lld,\"simtime_ns\":%lld,\"switches\":%lld,\"atomics\":%lld,\"futex_blocks\":%lld,\"clock_jumps\":%lld,\"idle_jumps\":%lld,",
		 (long long) s.steps, (long long) s.simtime_ns, (long long) s.switches, (long long) s.natomics, (long long) s.futex_blocks,
		 (long long) s.clock_jumps, (long long) s.idle_jumps);
	fprintf (fp, "\"fibres\":%lld,\"acquires\":%lld,\"frees\":%lld,", (long long) s.fibres, (long long) s.acquires, (long long) s.frees);
	fprintf (fp, "\"faults\":[");
	for (int i = 0; i < CH_NKINDS + 4; i++) fprintf (fp, "%s%lld", i ? "," : "", (long long) s.faults[i]);
	fprintf (fp, "],\"runs_no_fault\":%lld,\"nontrivial\":%lld,\"distinct_local\":%lld,\"reach_probe\":%d,\"probe_runs\":[",
		 (long long) s.runs_no_fault, (long long) s.nontrivial, (long long) s.hashes.size (), reach_probe);
	for (int i = 0; i < MAXPROBES; i++) fprintf (fp, "%s%lld", i ? "," : "", (long long) s.probe_runs[i]);
	fprintf (fp, "],\"policies\":[%lld,%lld,%lld,%lld],\"samples\":[", (long long) s.pol[0], (long long) s.pol[1], (long long) s.pol[2], (long long) s.pol[3]);
	for (size_t i = 0; i < s.samples.size (); i++) { if (i) fputc (',', fp); json_escape (fp, s.samples[i].c_str ()); }
	fprintf (fp, "]}\n");
	fclose (fp);
}

extern "C" int nsim_reach_probe;   // set by the family's generate()

static int worker (const struct nsim_family *fam, uint64_t base, int64_t first, int64_t nruns, int stride, double deadline,
		   const char *outdir, int wid) {
	Stats st;
	char path[512];
	FILE *arf = NULL;
	snprintf (path, sizeof path, "%s/w%d.viol", outdir, wid);
	FILE *vf = fopen (path, "a");
	int64_t idx;
	int exitcode = 0;
	int nviol_written = 0;
	for (idx = first; idx < nruns; idx += stride) {
		if (((idx - first) / stride) % 16 == 0 && wall () > deadline) break;
		uint64_t seed = run_seed (base, idx);
		RunOut o = do_run (fam, seed, true, NULL);
		st.runs++;
		switch (o.verdict) {
		case RV_FINISHED: st.finished++; break;
		case RV_STUCK: st.stuck++; break;
		case RV_NO_PROGRESS: st.noprog++; break;
		case RV_LIMIT: st.limit++; break;
		default: st.viol++; break;
		}
		st.drained += g.drained_runs_flag;
		st.steps += g.steps; st.simtime_ns += g.now - g.start; st.switches += g.switches; st.natomics += g.natomics;
		st.futex_blocks += g.futex_blocks; st.clock_jumps += g.clock_jumps; st.idle_jumps += g.idle_jumps;
		st.fibres += g.fibres_total; st.acquires += g.nacquires; st.frees += g.nfrees;
		int64_t nf = 0;
		for (int i = 0; i < CH_NKINDS + 4; i++) { st.faults[i] += g.faults_fired[i]; if (i < CH_NKINDS) nf += g.faults_fired[i]; }
		if (nf == 0 && g.clock_jumps == 0) st.runs_no_fault++;
		for (int i = 0; i < MAXPROBES; i++) if (g.probe_hit[i]) st.probe_runs[i]++;
		st.pol[g.pol.kind & 3]++;
		bool nontrivial = g.switches_in_nsync > 0 && (nsim_reach_probe < 0 || g.probe_hit[nsim_reach_probe] > 0);
		if (nontrivial) { st.nontrivial++; if (st.hashes.size () < 4000000) st.hashes.insert (o.hash); }
		if (st.samples.size () < 2 && nontrivial) {
			char buf[8192];
			nsim_scenario_print (buf, sizeof buf);
			char hdr[160];
			snprintf (hdr, sizeof hdr, "index=%lld seed=%llu switches=%lld steps=%lld: ", (long long) idx, (unsigned long long) seed,
				  (long long) g.switches, (long long) g.steps);
			st.samples.push_back (std::string (hdr) + buf);
		}
		if (all_results) {
			if (!arf) { char ap[512]; snprintf (ap, sizeof ap, "%s/w%d.%lld.all", outdir, wid, (long long) first); arf = fopen (ap, "w"); }
			if (arf) fprintf (arf, "%lld %d %s %s %016llx %lld\n", (long long) idx, o.verdict, rt_class_name (o.viol.cls), o.viol.site[0] ? o.viol.site : "-",
					  (unsigned long long) o.hash, (long long) o.steps);
		}
		if (o.verdict == RV_VIOLATION && vf && nviol_written < 50) {
			fprintf (vf, "%lld\t%llu\t%s\t%s\t%s\t%016llx\t%s\n", (long long) idx, (unsigned long long) seed, o.viol.prop,
				 rt_class_name (o.viol.cls), o.viol.site[0] ? o.viol.site : "-", (unsigned long long) o.hash, o.viol.msg);
			fflush (vf);
			nviol_written++;
		}
		if (g.tainted) { exitcode = 77; idx += stride; break; }
	}
	if (vf) fclose (vf);
	if (arf) fclose (arf);
	// statistics (appended across restarts of this worker id: one file per incarnation)
	snprintf (path, sizeof path, "%s/w%d.%lld.json", outdir, wid, (long long) first);
	write_stats (path, st, nsim_reach_probe);
	snprintf (path, sizeof path, "%s/w%d.%lld.hashes", outdir, wid, (long long) first);
	FILE *hf = fopen (path, "wb");
	if (hf) {
		std::vector<uint64_t> v (st.hashes.begin (), st.hashes.end ());
		std::sort (v.begin (), v.end ());
		if (!v.empty ()) fwrite (v.data (), sizeof (uint64_t), v.size (), hf);
		fclose (hf);
	}
	snprintf (path, sizeof path, "%s/w%d.%lld.sites", outdir, wid, (long long) first);
	rt_dump_sites (path);
	snprintf (path, sizeof path, "%s/w%d.next", outdir, wid);
	FILE *nf = fopen (path, "w");
	if (nf) { fprintf (nf, "%lld\n", (long long) idx); fclose (nf); }
	return exitcode;
}

static int batch (const struct nsim_family *fam, uint64_t base, int64_t nruns, int workers, double budget_s, const char *outdir) {
	mkdir (outdir, 0777);
	double deadline = wall () + budget_s;
	std::vector<pid_t> pids (workers);
	std::vector<int64_t> first (workers);
	auto spawn = [&] (int w) {
		pid_t p = fork ();
		if (p == 0) {
			int ec = worker (fam, base, first[w], nruns, workers, deadline, outdir, w);
			fflush (NULL);
			if (__gcov_dump) { rt_cov_accumulate (); rt_cov_restore (); __gcov_dump (); }     /* coverage builds only (bin/build.py --cov) */
			_exit (ec);
		}
		pids[w] = p;
	};
	for (int w = 0; w < workers; w++) { first[w] = w; spawn (w); }
	int live = workers;
	int hard_fail = 0;
	while (live > 0) {
		int status;
		pid_t p = wait (&status);
		if (p < 0) break;
		int w = -1;
		for (int i = 0; i < workers; i++) if (pids[i] == p) w = i;
		if (w < 0) continue;
		if (WIFEXITED (status) && WEXITSTATUS (status) == 77 && wall () < deadline) {
			// tainted by a recovered crash: restart on the remaining indices
			char path[512];
			snprintf (path, sizeof path, "%s/w%d.next", outdir, w);
			FILE *nf = fopen (path, "r");
			long long nx = nruns;
			if (nf) { if (fscanf (nf, "%lld", &nx) != 1) nx = nruns; fclose (nf); }
			first[w] = nx;
			if (nx < nruns) { spawn (w); continue; }
		} else if (!(WIFEXITED (status) && (WEXITSTATUS (status) == 0 || WEXITSTATUS (status) == 77))) {
			fprintf (stderr, "nsim: worker %d died (status 0x%x)\n", w, status);
			hard_fail = 1;
		}
		pids[w] = -1;
		live--;
	}
	return hard_fail ? 3 : 0;
}

// ------------------------------------------------------------------------------------------
// replay files
static std::string rle (const std::vector<uint16_t> &c) {
	std::string s;
	char b[32];
	for (size_t i = 0; i < c.size ();) {
		size_t j = i;
		while (j < c.size () && c[j] == c[i]) j++;
		if (j - i > 1) snprintf (b, sizeof b, "%u*%zu ", c[i], j - i); else snprintf (b, sizeof b, "%u ", c[i]);
		s += b;
		i = j;
	}
	return s;
}
static std::vector<uint16_t> unrle (const char *s) {
	std::vector<uint16_t> c;
	while (*s) {
		while (*s == ' ') s++;
		if (!*s || *s == '\n') break;
		char *e;
		unsigned v = strtoul (s, &e, 10);
		size_t n = 1;
		if (*e == '*') n = strtoul (e + 1, &e, 10);
		for (size_t i = 0; i < n; i++) c.push_back ((uint16_t) v);
		s = e;
	}
	return c;
}

static bool write_replay (const char *path, const struct nsim_family *fam, uint64_t seed, long long idx, const RunOut &o,
			  const std::vector<uint16_t> &choices) {
	FILE *fp = fopen (path, "w");
	if (!fp) return false;
	char buf[16384];
	nsim_scenario_print (buf, sizeof buf);
	fprintf (fp, "nsim-replay 1\nconfig %s\nfamily %s\nseed %llu\nindex %lld\n", NSIM_CONFIG, fam->name, (unsigned long long) seed, idx);
	fprintf (fp, "expect %s\t%s\t%s\nhash %016llx\nmessage %s\n", o.viol.prop, rt_class_name (o.viol.cls), o.viol.site[0] ? o.viol.site : "-",
		 (unsigned long long) o.hash, o.viol.msg);
	fprintf (fp, "scenario %s\n", buf);
	fprintf (fp, "choices %s\n", rle (choices).c_str ());
	fclose (fp);
	return true;
}

struct Replay {
	std::string config, family, prop, cls, site, scenario;
	uint64_t seed = 0, hash = 0; long long idx = 0;
	std::vector<uint16_t> choices;
};
static bool read_replay (const char *path, Replay &r) {
	FILE *fp = fopen (path, "r");
	if (!fp) return false;
	static char line[1 << 20];
	while (fgets (line, sizeof line, fp)) {
		size_t l = strlen (line);
		while (l && (line[l - 1] == '\n' || line[l - 1] == '\r')) line[--l] = 0;
		if (!strncmp (line, "config ", 7)) r.config = line + 7;
		else if (!strncmp (line, "family ", 7)) r.family = line + 7;
		else if (!strncmp (line, "seed ", 5)) r.seed = strtoull (line + 5, NULL, 10);
		else if (!strncmp (line, "index ", 6)) r.idx = strtoll (line + 6, NULL, 10);
		else if (!strncmp (line, "hash ", 5)) r.hash = strtoull (line + 5, NULL, 16);
		else if (!strncmp (line, "scenario ", 9)) r.scenario = line + 9;
		else if (!strncmp (line, "choices ", 8)) r.choices = unrle (line + 8);
		else if (!strncmp (line, "choices", 7)) r.choices.clear ();
		else if (!strncmp (line, "expect ", 7)) {
			char *p = line + 7;
			char *t1 = strchr (p, '\t'); if (!t1) continue; *t1 = 0;
			char *t2 = strchr (t1 + 1, '\t'); if (!t2) continue; *t2 = 0;
			r.prop = p; r.cls = t1 + 1; r.site = t2 + 1;
		}
	}
	fclose (fp);
	return true;
}

static void print_run (const RunOut &o) {
	printf ("verdict=%d class=%s prop=%s site=%s hash=%016llx steps=%lld\n", o.verdict, rt_class_name (o.viol.cls), o.viol.prop,
		o.viol.site[0] ? o.viol.site : "-", (unsigned long long) o.hash, (long long) o.steps);
	if (o.viol.cls != V_NONE) printf ("message=%s\n", o.viol.msg);
}

// ------------------------------------------------------------------------------------------
// minimiser: scenario shrinking, then choice-list shrinking; same violation signature only
static int minimise (const struct nsim_family *fam, uint64_t base, long long idx, const char *out) {
	uint64_t seed = run_seed (base, idx);
	RunOut o0 = do_run (fam, seed, true, NULL);
	if (o0.verdict != RV_VIOLATION) { printf ("minimise: seed does not fail\n"); return 2; }
	std::string sig = sig_of (o0.viol);
	std::vector<uint16_t> best = g.rec;
	RunOut besto = o0;
	// confirm that the explicit choice list reproduces it (gate for the replay mechanism itself)
	{
		RunOut o1 = do_run (fam, seed, false, &best);
		if (o1.verdict != RV_VIOLATION || sig_of (o1.viol) != sig || o1.hash != o0.hash) {
			printf ("minimise: explicit choice list does not reproduce the seed run (hash %016llx vs %016llx)\n",
				(unsigned long long) o1.hash, (unsigned long long) o0.hash);
			return 2;
		}
	}
	double t0 = wall ();
	int reruns = 0;
	const int MAXRERUNS = 600;
	auto try_current = [&] (std::vector<uint16_t> &choices_io, RunOut &out) -> bool {
		// recorded choices (interpreted modulo what is enabled), then a few fresh policy seeds
		for (int attempt = 0; attempt < 13 && reruns < MAXRERUNS; attempt++) {
			reruns++;
			RunOut o = attempt == 0 ? do_run (fam, seed, false, &choices_io)
						: do_run (fam, rt_mix (seed, 1000 + attempt), false, NULL);
			if (o.verdict == RV_VIOLATION && sig_of (o.viol) == sig) {
				choices_io = g.rec;
				out = o;
				return true;
			}
		}
		return false;
	};
	// 1. scenario shrinking (greedy, repeated until no candidate applies)
	bool progress = true;
	while (progress && reruns < MAXRERUNS && wall () - t0 < 60) {
		progress = false;
		int nc = nsim_scenario_shrink_candidates ();
		for (int k = nc - 1; k >= 0 && reruns < MAXRERUNS && wall () - t0 < 60; k--) {
			nsim_scenario_save ();
			if (!nsim_scenario_apply_shrink (k)) { nsim_scenario_restore (); continue; }
			std::vector<uint16_t> c = best;
			RunOut o;
			if (try_current (c, o)) { best = c; besto = o; progress = true; }
			else nsim_scenario_restore ();
		}
	}
	// 2. choice list: zero out chunks (0 = do not switch / do not inject / do not jump)
	for (size_t chunk = best.size () / 2 ? best.size () / 2 : 1; chunk >= 1 && reruns < MAXRERUNS + 400 && wall () - t0 < 90; chunk /= 2) {
		for (size_t i = 0; i < best.size () && reruns < MAXRERUNS + 400; i += chunk) {
			bool allzero = true;
			for (size_t j = i; j < i + chunk && j < best.size (); j++) if (best[j]) allzero = false;
			if (allzero) continue;
			std::vector<uint16_t> c = best;
			for (size_t j = i; j < i + chunk && j < c.size (); j++) c[j] = 0;
			reruns++;
			RunOut o = do_run (fam, seed, false, &c);
			if (o.verdict == RV_VIOLATION && sig_of (o.viol) == sig) { best = g.rec; besto = o; }
		}
		if (chunk == 1) break;
	}
	// 3. drop the all-zero tail (exhausted lists continue with 0)
	while (!best.empty () && best.back () == 0) best.pop_back ();
	RunOut fin = do_run (fam, seed, false, &best);
	if (fin.verdict != RV_VIOLATION || sig_of (fin.viol) != sig) { printf ("minimise: final check failed\n"); return 2; }
	write_replay (out, fam, seed, idx, fin, best);
	int nonzero = 0;
	for (auto v : best) if (v) nonzero++;
	printf ("minimised: reruns=%d choices=%zu nonzero=%d\n", reruns, best.size (), nonzero);
	print_run (fin);
	return 0;
}

static int replay_file (const char *path, bool trace) {
	Replay r;
	if (!read_replay (path, r)) { fprintf (stderr, "cannot read %s\n", path); return 2; }
	if (r.config != NSIM_CONFIG) { fprintf (stderr, "replay file is for config %s, this binary is %s\n", r.config.c_str (), NSIM_CONFIG); return 2; }
	const struct nsim_family *fam = find_family (r.family.c_str ());
	if (!fam) { fprintf (stderr, "unknown family %s\n", r.family.c_str ()); return 2; }
	if (!nsim_scenario_parse (r.scenario.c_str ())) { fprintf (stderr, "cannot parse scenario\n"); return 2; }
	g.tracing = trace;
	RunOut o = do_run (fam, r.seed, false, &r.choices);
	g.tracing = 0;
	print_run (o);
	bool same = o.verdict == RV_VIOLATION && r.prop == o.viol.prop && r.cls == rt_class_name (o.viol.cls) &&
		    r.site == (o.viol.site[0] ? o.viol.site : "-");
	if (same) {
		printf ("REPRODUCED property=%s class=%s site=%s hash_match=%d\n", o.viol.prop, rt_class_name (o.viol.cls), o.viol.site,
			o.hash == r.hash);
		return 1;
	}
	printf ("NOT-REPRODUCED\n");
	return 0;
}

int main (int argc, char **argv) {
	const char *family = NULL, *outdir = "/tmp/nsim-out", *replay = NULL, *minout = NULL, *merge_dir = NULL;
	uint64_t seed = 1;
	long long runs = 1000, one = -1, mini = -1;
	int workers = 1;
	double budget = 1e9;
	bool trace = false, listf = false, twice = false;
	g.force_policy = -1;
	for (int i = 1; i < argc; i++) {
		std::string a = argv[i];
		auto next = [&] () -> const char * { if (i + 1 >= argc) { fprintf (stderr, "missing value for %s\n", a.c_str ()); exit (2); } return argv[++i]; };
		if (a == "--family") family = next ();
		else if (a == "--seed") seed = strtoull (next (), NULL, 10);
		else if (a == "--runs") runs = atoll (next ());
		else if (a == "--workers") workers = atoi (next ());
		else if (a == "--budget-s") budget = atof (next ());
		else if (a == "--outdir") outdir = next ();
		else if (a == "--one") one = atoll (next ());
		else if (a == "--twice") twice = true;
		else if (a == "--trace") trace = true;
		else if (a == "--minimise") mini = atoll (next ());
		else if (a == "--replay-out") minout = next ();
		else if (a == "--replay") replay = next ();
		else if (a == "--merge-hashes") merge_dir = next ();
		else if (a == "--all-results") all_results = true;
		else if (a == "--policy") g.force_policy = atoi (next ());
		else if (a == "--b1") g.B1 = atoll (next ());
		else if (a == "--list-families") listf = true;
		else { fprintf (stderr, "unknown argument %s\n", a.c_str ()); return 2; }
	}
	long long b1 = g.B1;
	rt_init ();
	if (b1 > 0) g.B1 = b1;
	if (listf) {
		for (int i = 0; i < nsim_nfamilies; i++) printf ("%s\n", nsim_families[i].name);
		return 0;
	}
	if (merge_dir) {
		// union of the per-worker sets of trace hashes of non-trivial runs
		std::vector<uint64_t> all;
		char cmd[1024];
		snprintf (cmd, sizeof cmd, "ls %s/*.hashes 2>/dev/null", merge_dir);
		FILE *ls = popen (cmd, "r");
		char path[1024];
		while (ls && fgets (path, sizeof path, ls)) {
			size_t l = strlen (path);
			while (l && path[l - 1] == '\n') path[--l] = 0;
			FILE *hf = fopen (path, "rb");
			if (!hf) continue;
			uint64_t buf[4096];
			size_t n;
			while ((n = fread (buf, sizeof (uint64_t), 4096, hf)) > 0) all.insert (all.end (), buf, buf + n);
			fclose (hf);
		}
		if (ls) pclose (ls);
		std::sort (all.begin (), all.end ());
		size_t distinct = std::unique (all.begin (), all.end ()) - all.begin ();
		printf ("%zu\n", distinct);
		return 0;
	}
	if (replay) return replay_file (replay, trace);
	const struct nsim_family *fam = family ? find_family (family) : NULL;
	if (!fam) { fprintf (stderr, "unknown or missing --family\n"); return 2; }
	if (one >= 0) {
		uint64_t s = run_seed (seed, one);
		g.tracing = trace;
		RunOut o = do_run (fam, s, true, NULL);
		g.tracing = 0;
		char buf[16384];
		nsim_scenario_print (buf, sizeof buf);
		printf ("config=%s family=%s index=%lld seed=%llu policy=%d\nscenario %s\n", NSIM_CONFIG, fam->name, one, (unsigned long long) s, g.pol.kind, buf);
		print_run (o);
		if (minout) { std::vector<uint16_t> rec0 = g.rec; write_replay (minout, fam, s, one, o, rec0); }
		if (twice) {
			// determinism gate: same seed again, then the explicit choice list
			std::vector<uint16_t> rec = g.rec;
			RunOut o2 = do_run (fam, s, true, NULL);
			RunOut o3 = do_run (fam, s, true, &rec);
			bool ok = o2.hash == o.hash && o3.hash == o.hash && o2.verdict == o.verdict && o3.verdict == o.verdict &&
				  sig_of (o2.viol) == sig_of (o.viol) && sig_of (o3.viol) == sig_of (o.viol);
			printf ("gate=%s\n", ok ? "ok" : "MISMATCH");
			if (!ok) return 2;
		}
		return o.verdict == RV_VIOLATION ? 1 : 0;
	}
	if (mini >= 0) return minimise (fam, seed, mini, minout ? minout : "/tmp/nsim.replay");
	return batch (fam, seed, runs, workers, budget, outdir);
}
