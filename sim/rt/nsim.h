/* nsim.h -- C API of the deterministic simulator runtime (used by the harness, which is
   compiled as C for the C configurations of nsync and as C++ for the C++ one). */
#ifndef NSIM_H_
#define NSIM_H_
#include <stddef.h>
#include <stdint.h>
#include <time.h>

#ifdef __cplusplus
extern "C" {
#endif

#define NSIM_MAXF 16            /* fibres alive at once when happens-before tracking is on */
#define NSIM_MAXSLOTS 16
#define NSIM_MAXWATCH 96

/* ---- choice kinds (one choice stream decides everything) ---- */
enum {
	CH_SCHED = 0,
	CH_CLOCK = 1,
	CH_F_EINTR = 2,      /* F1 futex wait returns EINTR */
	CH_F_SPURIOUS = 3,   /* F2 futex wait returns 0 with no wake */
	CH_F_EARLYTO = 4,    /* F3 futex wait returns ETIMEDOUT early */
	CH_F_CONDSPUR = 5,   /* F5 condvar spurious wake / early timeout */
	CH_F_ALLOC = 6,      /* F7 allocation failure */
	CH_F_STALE = 7,      /* F9 stale load */
	CH_WAKE_PICK = 8,    /* which futex waiter to wake */
	CH_HARNESS = 9,      /* harness-level run-time choices */
	CH_NKINDS = 10
};

/* ---- violation classes ---- */
enum {
	V_NONE = 0,
	V_MUTEX_OVERLAP,     /* occupancy model violated at an acquire/release point */
	V_WORD_INVARIANT,    /* mutex word shows writer and readers at once */
	V_STUCK,             /* blocked-forever end state judged a violation by the family */
	V_NO_PROGRESS,       /* fair fault-free drain did not finish */
	V_TRY_BLOCKED,       /* a try-lock slept or spun */
	V_DATA_RACE,         /* two conflicting accesses unordered by happens-before */
	V_DEAD_ACCESS,       /* access to freed / never allocated / dead stack memory */
	V_RECLAIM_RACE,      /* access unordered with the reclamation (free / frame death) */
	V_CRASH,             /* SIGSEGV/SIGBUS (nsync ASSERT is a null store) */
	V_PANIC,             /* nsync_panic_ / abort */
	V_ORACLE,            /* harness oracle (detail in message) */
	V_NCLASSES
};

/* ---- run verdicts ---- */
enum { RV_FINISHED = 0, RV_STUCK = 1, RV_NO_PROGRESS = 2, RV_VIOLATION = 3, RV_LIMIT = 4 /* a simulator limit was hit: run discarded, never a verdict */ };

/* ---- fibre API ---- */
int  nsim_spawn (void (*fn) (void *), void *arg);   /* returns tid; happens-before edge */
int  nsim_self (void);
int  nsim_is_done (int tid);
void nsim_join (int tid);                           /* blocks; happens-before edge */
void nsim_point (void);                             /* plain scheduling point */
void nsim_yield (void);                             /* fair yield */
void nsim_wait_until (int (*pred) (void *), void *arg); /* runtime-level blocking, no nsync */
void nsim_quiesce (void);       /* block until all other fibres are done or blocked w/o timer */
int  nsim_quiesced_ok (void);   /* after quiesce: 1 if it was a true quiescence */

/* ---- op bracketing (scheduling points + frame-death bookkeeping + op name for reports) ---- */
void nsim_op_begin (const char *name);
void nsim_op_end (void);
int  nsim_op_sleeps (void);      /* blocking kernel waits by this fibre since op_begin */
int  nsim_op_atomics (void);     /* atomic operations by this fibre since op_begin */
int  nsim_op_idle_jumps (void);
int64_t nsim_op_last_timer_wake_ns (void); /* virtual time at which this fibre was last released from a blocking wait by that wait's own timer in this op, -1 none */
int64_t nsim_op_last_timed_block_ns (void); /* virtual time at which this fibre last began a TIMED blocking wait in this op, -1 none */  /* clock jumps that were needed to wake this fibre since op_begin */

/* ---- choices ---- */
int  nsim_choose (int kind, int n);   /* run-time choice, recorded */
unsigned nsim_gen (unsigned n);       /* generator-time choice in [0,n) (seeded, not recorded) */

long long nsim_run_index (void);      /* index of this run in its batch (enumerated dimensions) */
void nsim_gen_reseed (uint64_t key);  /* re-key the generator stream (scenario shared by several indices) */
void nsim_set_prio (int tid, int prio);
int  nsim_alloc_failures (void);      /* injected allocation failures so far in this run */

/* ---- time ---- */
int64_t nsim_now_ns (void);
int64_t nsim_start_ns (void);
void nsim_advance_ns (int64_t d);

/* ---- memory ---- */
void *nsim_alloc (size_t n);                 /* arena allocation for scenario objects (zeroed) */
void  nsim_free_obj (void *p);               /* reclamation: range write + poison */
void  nsim_client_read (const void *p, int size, int site);
void  nsim_client_write (void *p, int size, int site);
void  nsim_guard_buffer (void *buf, int n, void *block, int blocklen); /* C16: stores into block outside buf[0..n) are violations */
void  nsim_unguard_buffer (void);
int   nsim_is_live (const void *p);

/* ---- write watches: who is the first simulated thread to store to a 4-byte word after the watch was set ---- */
void nsim_watch_set (int slot, const void *p);
int  nsim_watch_first_writer (int slot);     /* tid, or -1 if nobody has stored to it since */
void nsim_watch_clear (int slot);
const void *nsim_watch_addr (int slot);    /* the watched word, or NULL */
void nsim_watch_arm_on_store (int slot, const char *func);  /* the calling fibre's next atomic store of the value 1 made inside a function whose name contains func
                                                               starts watch `slot` on the stored-to word (that store itself is not counted) */

/* ---- the thread-specific-data model, for client keys made by the harness (the simulated code reaches it through the seam) ---- */
int nsim_sys_pthread_key_create (unsigned *key, void (*dtor) (void *));
int nsim_sys_pthread_setspecific (unsigned key, const void *v);

/* ---- happens-before edges created by the harness itself ---- */
void nsim_hb_release (int chan);
void nsim_hb_acquire (int chan);

/* ---- reporting ---- */
void nsim_violation (const char *prop, int cls, const char *site, const char *fmt, ...)
	__attribute__ ((format (printf, 4, 5)));
void nsim_note (const char *fmt, ...) __attribute__ ((format (printf, 1, 2)));  /* trace line, only when tracing */
void nsim_probe (int id);           /* reach probe hit */
int  nsim_tracing (void);

/* ---- run configuration set by the family before the controller starts ---- */
struct nsim_runcfg {
	const char *prop_default;    /* property charged for runtime-detected violations */
	const char *prop_race;       /* property charged for V_DATA_RACE (default C03) */
	const char *prop_reclaim;    /* property charged for V_DEAD_ACCESS / V_RECLAIM_RACE */
	const char *prop_progress;   /* property charged for stuck / no-progress */
	int hb_on;                   /* happens-before tracking enabled */
	int frame_death;             /* op_end performs the frame-death range write */
	int expect_termination;      /* stuck/no-progress are violations by themselves */
	int fault_mask;              /* allowed fault kinds (bit per CH_F_*) */
	int max_fibres_total;
	uint32_t mu_wlock, mu_rlock_field, mu_spinlock; /* mutex word layout from the repo headers */
	const char *prop_force;      /* when set, every violation of the run is charged to this property */
	int fail_alloc_index;        /* C19: the k-th constructor allocation fails (0: none) */
	const char *tolerate_dead_reads_in; /* a READ of reclaimed memory made while the fibre is inside a function, or a harness op, whose name contains this string ends the run as discarded (RV_LIMIT) instead of as a violation */
	int extra_steps;             /* added to the step budget of the drain phase (families whose legal programs are very long) */
	int clock_align;             /* clock reads may first jump the clock forward (by less than a second) onto an instant whose sub-second part is a round
	                                distance from the next full second: for code that does arithmetic on its clock readings */
	int policy_noise;            /* policy 4 only: probability (in 1/10000 per scheduling decision) of a uniformly random pick instead of the highest priority */
	int policy;                  /* 0: seeded swarm; 4: strict priorities given by nsim_set_prio(); 5: swarm restricted to fair policies (uniform, sticky) */
};
extern struct nsim_runcfg nsim_cfg;

/* the model of mutex occupancy kept at nsync's own annotation points */
int  nsim_model_holds (const void *mu, int tid, int *is_writer); /* does tid hold mu in the in-library model */
int  nsim_model_writer (const void *mu);    /* tid of model writer or -1 */
int  nsim_model_readers (const void *mu);   /* number of model readers */
void nsim_register_mu (void *mu);

/* calls into the per-thread semaphores' kernel model, for end-state reports */
int  nsim_fibre_state (int tid);            /* 0 free,1 runnable,2 futex,3 pmutex,4 pcond,5 pred,6 quiesce,7 join,8 done */
const char *nsim_fibre_op (int tid);
int  nsim_fibre_has_timer (int tid);
int  nsim_fibre_in_func (int tid, const char *fname);  /* is fname on the fibre's shadow call stack */
int  nsim_nfibres (void);

/* ---- provided by the harness ---- */
struct nsim_family {
	const char *name;
	void (*generate) (void);            /* fill the global scenario using nsim_gen() */
	void (*configure) (void);           /* set nsim_cfg for the current scenario (also called on replay) */
	void (*controller) (void *);        /* body of fibre 0 */
	void (*end_state) (int verdict);    /* end-state oracle, called outside any fibre */
};
extern const struct nsim_family nsim_families[];
extern const int nsim_nfamilies;
/* scenario (de)serialisation: the harness owns the scenario global */
int  nsim_scenario_print (char *buf, int n);
int  nsim_scenario_parse (const char *text);
int  nsim_scenario_shrink_candidates (void);   /* number of shrink candidates of the current scenario */
int  nsim_scenario_apply_shrink (int k);       /* apply candidate k in place; returns 0 if not applicable */
void nsim_scenario_save (void);               /* snapshot / restore for the minimiser */
void nsim_scenario_restore (void);
extern const char *nsim_probe_names[];
extern const int nsim_nprobes;

#ifdef __cplusplus
}
#endif
#endif
