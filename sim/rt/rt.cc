// rt.cc -- nsim runtime: fibres, choice stream, policies, virtual clock, kernel models
// (futex, pthread mutex/cond, TLS keys, malloc), arena, shadow memory with happens-before,
// TSan-ABI hooks.  Compiled WITHOUT instrumentation.  One OS thread per worker process.
#include "rt_internal.h"

#include <errno.h>
#include <signal.h>
#include <semaphore.h>
#include <stdarg.h>
#include <stdio.h>
#include <stdlib.h>
#include <string.h>
#include <sys/mman.h>
#include <sys/time.h>
#include <unistd.h>
#include <linux/futex.h>
#include <sys/syscall.h>
#include <elf.h>
#include <fcntl.h>
#include <algorithm>
#include <cxxabi.h>

G g;
struct nsim_runcfg nsim_cfg;

// ------------------------------------------------------------------------------------------
// PRNG
static inline uint64_t splitmix (uint64_t &s) {
	uint64_t z = (s += 0x9e3779b97f4a7c15ULL);
	z = (z ^ (z >> 30)) * 0xbf58476d1ce4e5b9ULL;
	z = (z ^ (z >> 27)) * 0x94d049bb133111ebULL;
	return z ^ (z >> 31);
}
uint64_t rt_mix (uint64_t a, uint64_t b) {
	uint64_t s = a * 0x9e3779b97f4a7c15ULL + b;
	splitmix (s);
	return splitmix (s);
}
static inline uint32_t rnd (uint64_t &s, uint32_t n) {   // [0,n)
	return (uint32_t) ((splitmix (s) >> 33) % n);
}
static inline bool rnd_p (uint64_t &s, uint32_t per_mille_x10) {  // probability in 1/10000
	return (splitmix (s) >> 33) % 10000 < per_mille_x10;
}

// ------------------------------------------------------------------------------------------
// ELF symbols (function names for reports and for call-stack predicates)
struct Sym { uintptr_t lo, hi; const char *name; };
static std::vector<Sym> symtab;
static char *strtab_copy;
static void load_symbols () {
	int fd = open ("/proc/self/exe", O_RDONLY);
	if (fd < 0) return;
	off_t len = lseek (fd, 0, SEEK_END);
	unsigned char *m = (unsigned char *) mmap (NULL, len, PROT_READ, MAP_PRIVATE, fd, 0);
	close (fd);
	if (m == MAP_FAILED) return;
	Elf64_Ehdr *eh = (Elf64_Ehdr *) m;
	Elf64_Shdr *sh = (Elf64_Shdr *) (m + eh->e_shoff);
	for (int i = 0; i < eh->e_shnum; i++) {
		if (sh[i].sh_type != SHT_SYMTAB) continue;
		Elf64_Sym *sy = (Elf64_Sym *) (m + sh[i].sh_offset);
		int n = sh[i].sh_size / sizeof (Elf64_Sym);
		Elf64_Shdr *st = &sh[sh[i].sh_link];
		strtab_copy = (char *) malloc (st->sh_size);
		memcpy (strtab_copy, m + st->sh_offset, st->sh_size);
		for (int k = 0; k < n; k++) {
			if (ELF64_ST_TYPE (sy[k].st_info) != STT_FUNC || sy[k].st_size == 0) continue;
			Sym s; s.lo = sy[k].st_value; s.hi = s.lo + sy[k].st_size;
			s.name = strtab_copy + sy[k].st_name;
			if (s.name[0] == '_' && s.name[1] == 'Z') {
				// C++ configuration: report the same names as the C builds (drop namespace and parameter list)
				int status = 0;
				char *dm = abi::__cxa_demangle (s.name, NULL, NULL, &status);
				if (dm && status == 0) {
					char *paren = strchr (dm, '(');
					if (paren) *paren = 0;
					char *base = dm;
					if (strncmp (base, "nsync::", 7) == 0) base += 7;
					if (strncmp (base, "(anonymous namespace)::", 23) == 0) base += 23;
					s.name = strdup (base);
				}
				free (dm);
			}
			symtab.push_back (s);
		}
	}
	munmap (m, len);
	std::sort (symtab.begin (), symtab.end (), [] (const Sym &a, const Sym &b) { return a.lo < b.lo; });
}
const char *rt_symname (uintptr_t pc) {
	size_t lo = 0, hi = symtab.size ();
	while (lo < hi) {
		size_t mid = (lo + hi) / 2;
		if (symtab[mid].hi <= pc) lo = mid + 1; else hi = mid;
	}
	if (lo < symtab.size () && symtab[lo].lo <= pc && pc < symtab[lo].hi) return symtab[lo].name;
	return "?";
}
static uintptr_t sym_addr (const char *name) {
	for (auto &s : symtab) if (strcmp (s.name, name) == 0) return s.lo;
	return 0;
}

// ------------------------------------------------------------------------------------------
// Trace hash and trace log
static inline void hfold (uint64_t v) {
	g.hash = (g.hash ^ v) * 0x100000001b3ULL;
	g.hash ^= g.hash >> 29;
}
static inline uint64_t addr_id (uintptr_t a) {   // addresses are fixed, so raw values are stable
	return (uint64_t) a;
}
#define TRACE(...) do { if (g.tracing) { trace_printf (__VA_ARGS__); } } while (0)
static void trace_printf (const char *fmt, ...) {
	va_list ap;
	va_start (ap, fmt);
	fprintf (g.trace_fp ? g.trace_fp : stderr, "[%6lld t%d] ", (long long) g.steps, g.cur ? g.cur->tid : -1);
	vfprintf (g.trace_fp ? g.trace_fp : stderr, fmt, ap);
	fputc ('\n', g.trace_fp ? g.trace_fp : stderr);
	va_end (ap);
}
extern "C" int nsim_tracing (void) { return g.tracing; }
extern "C" void nsim_note (const char *fmt, ...) {
	if (!g.tracing) return;
	va_list ap;
	va_start (ap, fmt);
	FILE *fp = g.trace_fp ? g.trace_fp : stderr;
	fprintf (fp, "[%6lld t%d] # ", (long long) g.steps, g.cur ? g.cur->tid : -1);
	vfprintf (fp, fmt, ap);
	fputc ('\n', fp);
	va_end (ap);
}
extern "C" void nsim_probe (int id) { if (id >= 0 && id < MAXPROBES) g.probe_hit[id]++; }

// ------------------------------------------------------------------------------------------
// Violations
static void end_run (int verdict) __attribute__ ((noreturn));

static void describe_stack (Fibre *f, uintptr_t pc, char *buf, int n) {
	int pos = 0;
	if (pc) pos += snprintf (buf + pos, n - pos, "%s", rt_symname (pc));
	for (int i = f->fdepth - 1; i >= 0 && i >= f->fdepth - 6 && pos < n - 1; i--) {
		if (i >= MAXFSTACK) continue;
		pos += snprintf (buf + pos, n - pos, "%s%s", pos ? "<" : "", rt_symname (f->fstack[i] - 1));
	}
	if (f->opname && pos < n - 1) snprintf (buf + pos, n - pos, " [op %s]", f->opname);
}

void rt_violation_v (const char *prop, int cls, const char *site, const char *fmt, va_list ap) {
	if (g.viol.cls != V_NONE) return;   // first one wins
	g.viol.cls = cls;
	if (nsim_cfg.prop_force) prop = nsim_cfg.prop_force;
	snprintf (g.viol.prop, sizeof g.viol.prop, "%s", prop ? prop : (nsim_cfg.prop_default ? nsim_cfg.prop_default : "C00"));
	snprintf (g.viol.site, sizeof g.viol.site, "%s", site ? site : "");
	vsnprintf (g.viol.msg, sizeof g.viol.msg, fmt, ap);
	g.viol.step = g.steps;
	TRACE ("VIOLATION prop=%s class=%s site=%s: %s", g.viol.prop, rt_class_name (cls), g.viol.site, g.viol.msg);
}
void rt_violation (const char *prop, int cls, const char *site, const char *fmt, ...) {
	va_list ap;
	va_start (ap, fmt);
	rt_violation_v (prop, cls, site, fmt, ap);
	va_end (ap);
}
extern "C" void nsim_violation (const char *prop, int cls, const char *site, const char *fmt, ...) {
	va_list ap;
	va_start (ap, fmt);
	rt_violation_v (prop, cls, site, fmt, ap);
	va_end (ap);
	if (g.in_run && g.cur) end_run (RV_VIOLATION);
}
const char *rt_class_name (int cls) {
	static const char *n[] = { "none", "mutex-overlap", "word-invariant", "stuck", "no-progress",
		"try-blocked", "data-race", "dead-memory-access", "reclaim-race", "crash", "panic", "oracle" };
	return (cls >= 0 && cls < V_NCLASSES) ? n[cls] : "?";
}

// ------------------------------------------------------------------------------------------
// Choice stream
static int policy_sched (int n, bool cur_first, int *cands);

static inline int take_choice (int kind, int n, int seed_value) {
	int v;
	if (g.replay_mode) {
		if (g.replay_pos < g.replay.size ()) v = g.replay[g.replay_pos++] % n; else v = 0;
	} else {
		v = seed_value;
	}
	g.rec.push_back ((uint16_t) v);
	hfold (((uint64_t) kind << 32) | ((uint64_t) n << 16) | (uint64_t) v);
	g.nchoices[kind]++;
	return v;
}

static int choose_fault (int kind) {   // binary fault opportunity
	if (g.draining) return 0;
	if (!(nsim_cfg.fault_mask & (1 << kind))) return 0;
	int sv = 0;
	if (!g.replay_mode) {
		if (g.faults_total < g.pol.max_faults && rnd_p (g.rng, g.pol.fault_rate[kind])) sv = 1;
	}
	int v = take_choice (kind, 2, sv);
	if (v) { g.faults_total++; g.faults_fired[kind]++; }
	return v;
}

extern "C" int nsim_choose (int kind, int n) {
	if (n <= 1) return 0;
	if (g.draining) return 0;
	int sv = 0;
	if (!g.replay_mode) sv = rnd (g.rng, n);
	return take_choice (kind, n, sv);
}
extern "C" long long nsim_run_index (void) { return g.run_index; }
extern "C" void nsim_gen_reseed (uint64_t key) { g.gen_rng = rt_mix (g.base_seed ^ 0x67656e, key); }
extern "C" void nsim_set_prio (int tid, int prio) { if (tid >= 0 && tid < NSIM_MAXSLOTS) g.pol.prio[tid] = prio; }
extern "C" int nsim_alloc_failures (void) { return g.cur ? g.cur->alloc_failures : 0; }
extern "C" unsigned nsim_gen (unsigned n) {
	if (n <= 1) return 0;
	return rnd (g.gen_rng, n);
}

// ------------------------------------------------------------------------------------------
// Vector clocks
static inline void vc_join (uint32_t *a, const uint32_t *b) {
	for (int i = 0; i < NSIM_MAXF; i++) if (b[i] > a[i]) a[i] = b[i];
}
static inline void vc_copy (uint32_t *a, const uint32_t *b) { memcpy (a, b, sizeof (uint32_t) * NSIM_MAXF); }
static inline void vc_zero (uint32_t *a) { memset (a, 0, sizeof (uint32_t) * NSIM_MAXF); }

// ------------------------------------------------------------------------------------------
// Memory regions, shadow
static inline Region *region_of (uintptr_t a) {
	for (int i = 0; i < g.nregions; i++) if (a >= g.regions[i].lo && a < g.regions[i].hi) return &g.regions[i];
	return NULL;
}
static inline Cell *cell_of (Region *r, uintptr_t a) {
	Cell *c = &r->cells[(a - r->lo) >> 2];
	if (c->stamp != g.stamp) {
		memset (c, 0, sizeof (Cell));
		c->stamp = g.stamp;
		c->live = (r->kind == REG_ARENA) ? 0 : 1;
	}
	return c;
}

static void add_region (int kind, uintptr_t lo, uintptr_t hi) {
	Region *r = &g.regions[g.nregions++];
	r->kind = kind; r->lo = lo; r->hi = hi;
	size_t ncells = (hi - lo + 3) / 4;
	r->cells = (Cell *) mmap (NULL, ncells * sizeof (Cell), PROT_READ | PROT_WRITE,
				  MAP_PRIVATE | MAP_ANONYMOUS | MAP_NORESERVE, -1, 0);
	if (r->cells == MAP_FAILED) { perror ("mmap shadow"); _exit (3); }
}

static Fibre *stack_owner (uintptr_t a) {
	if (a < STACKS_BASE || a >= STACKS_BASE + (uintptr_t) NSIM_MAXSLOTS * STACK_SIZE) return NULL;
	return &g.fib[(a - STACKS_BASE) / STACK_SIZE];
}

static bool g_access_is_write;
static void report_access (int cls, const char *what, Fibre *f, uintptr_t pc, uintptr_t addr,
			   int other_tid, uint32_t other_pc, const char *other_what) {
	char a[256], site[160];
	if (cls == V_DEAD_ACCESS && !g_access_is_write && nsim_cfg.tolerate_dead_reads_in && pc &&
	    (strstr (rt_symname (pc), nsim_cfg.tolerate_dead_reads_in) || nsim_fibre_in_func (f->tid, nsim_cfg.tolerate_dead_reads_in) ||
	     (f->opname && strstr (f->opname, nsim_cfg.tolerate_dead_reads_in)))) {
		// a documented, tolerated read of reclaimed memory (see DESIGN.md, Appendix B): the run is cut here and discarded --
		// never a verdict, and never continued, because what such a read returns is not defined
		g.probe_hit[P_TOLERATED_DEAD_READ]++;
		TRACE ("tolerated dead read in %s: run discarded", rt_symname (pc));
		end_run (RV_LIMIT);
	}
	describe_stack (f, pc, a, sizeof a);
	const char *s1 = pc ? rt_symname (pc) : (f->opname ? f->opname : "harness");
	const char *s2 = other_pc ? rt_symname (other_pc) : (other_what ? other_what : "?");
	// canonical (sorted) site pair so that the signature does not depend on which access ran first
	if (strcmp (s1, s2) <= 0) snprintf (site, sizeof site, "%s,%s", s1, s2);
	else snprintf (site, sizeof site, "%s,%s", s2, s1);
	const char *prop = nsim_cfg.prop_race ? nsim_cfg.prop_race : "C03";
	if (cls == V_DEAD_ACCESS || cls == V_RECLAIM_RACE) prop = nsim_cfg.prop_reclaim ? nsim_cfg.prop_reclaim : "C13";
	rt_violation (prop, cls, site, "%s at 0x%lx by t%d in %s; other: t%d %s %s", what, (unsigned long) addr,
		      f->tid, a, other_tid, other_what ? other_what : "", other_pc ? rt_symname (other_pc) : "");
	end_run (RV_VIOLATION);
}

// kind: 0 plain read, 1 plain write, 2 atomic read, 3 atomic write(or rmw), 4 reclamation write
static inline void shadow_access (uintptr_t addr, int size, int kind, uintptr_t pc) {
	Fibre *f = g.cur;
	if (!f || !g.in_run) return;
	g_access_is_write = (kind == 1 || kind == 3 || kind == 4);
	if (g.site_hit && pc - g.text_lo < g.text_len) g.site_hit[pc - g.text_lo] = 1;
	if (++g.plain_since_sched > 20000000) {
		char a[256];
		g.plain_since_sched = 0;
		describe_stack (f, pc, a, sizeof a);
		rt_violation (NULL, V_NO_PROGRESS, "runaway", "20M memory accesses without reaching a synchronisation operation (unbounded loop) in %s", a);
		end_run (RV_VIOLATION);
	}
	if (g.nwatch && (kind == 1 || kind == 3)) {
		for (int i = 0; i < NSIM_MAXWATCH; i++) {
			if (g.watch[i].active && g.watch[i].first_tid < 0 && addr < g.watch[i].addr + 4 && addr + size > g.watch[i].addr) g.watch[i].first_tid = f->tid;
		}
	}
	Region *r = region_of (addr);
	if (!r) return;
	if (addr == g.suppress_addr) return;
	uintptr_t a0 = addr & ~(uintptr_t) 3, a1 = (addr + size + 3) & ~(uintptr_t) 3;
	int t = f->tid;
	for (uintptr_t a = a0; a < a1 && a < r->hi; a += 4) {
		Cell *c = cell_of (r, a);
		if (r->kind == REG_ARENA && c->live != 1 && kind != 4) {
			g.probe_hit[P_DEAD]++;
			report_access (V_DEAD_ACCESS, c->live == 2 ? "access to freed memory" : "access to unallocated arena memory",
				       f, pc, a, c->w_tid, c->w_pc, c->live == 2 ? "freed-by" : "");
		}
		if (r->kind == REG_STACK) {
			Fibre *o = stack_owner (a);
			if (o && o != f && (o->st == F_FREE || o->st == F_DONE || a + 128 < o->saved_sp)) {
				report_access (V_DEAD_ACCESS, "access to dead stack memory", f, pc, a, o->tid, 0, "stack-owner");
			}
		}
		if (!nsim_cfg.hb_on) continue;
		bool is_write = (kind == 1 || kind == 3 || kind == 4);
		bool is_atomic = (kind == 2 || kind == 3);
		// check against last write
		if (c->w_clk != 0 && c->w_tid != t && !(is_atomic && c->w_atomic)) {
			if (c->w_clk > f->vc[c->w_tid]) {
				int cls = (kind == 4 || c->w_reclaim) ? V_RECLAIM_RACE : V_DATA_RACE;
				report_access (cls, is_write ? "write races with earlier write" : "read races with earlier write",
					       f, pc, a, c->w_tid, c->w_pc, c->w_reclaim ? "reclaimed-by" : (c->w_atomic ? "atomic-write" : "write"));
			}
		}
		if (is_write) {
			unsigned m = c->r_mask;
			while (m) {
				int u = __builtin_ctz (m); m &= m - 1;
				if (u == t) continue;
				bool r_at = (c->r_atomic_mask >> u) & 1;
				if (is_atomic && r_at) continue;
				if (c->r_clk[u] > f->vc[u]) {
					int cls = (kind == 4) ? V_RECLAIM_RACE : V_DATA_RACE;
					report_access (cls, kind == 4 ? "reclamation races with earlier access" : "write races with earlier read",
						       f, pc, a, u, c->r_pc[u], r_at ? "atomic-read" : "read");
				}
			}
			c->w_tid = t; c->w_clk = f->vc[t]; c->w_pc = (uint32_t) pc;
			c->w_atomic = is_atomic; c->w_reclaim = (kind == 4);
			c->r_mask = 0; c->r_atomic_mask = 0;
		} else {
			c->r_clk[t] = f->vc[t]; c->r_pc[t] = (uint32_t) pc;
			c->r_mask |= 1u << t;
			if (is_atomic) c->r_atomic_mask |= 1u << t; else c->r_atomic_mask &= ~(1u << t);
		}
	}
	// C19: between a failed constructor allocation and the constructor's return nothing that already exists may be written
	// (stores made inside nsync_mu_* do not count: a constructor may take and release the parent's lock, which leaves it unchanged)
	if (kind == 1 && f->no_write_window && r->kind == REG_ARENA && !nsim_fibre_in_func (f->tid, "nsync_mu_")) {
		char a[256];
		describe_stack (f, pc, a, sizeof a);
		rt_violation ("C19", V_ORACLE, "write-after-failed-alloc", "store to existing object at 0x%lx after the constructor's allocation failed, in %s", (unsigned long) addr, a);
		end_run (RV_VIOLATION);
	}
	// guarded buffer (C16): stores into the guard block outside buf[0..n)
	if ((kind == 1) && g.guard_block && addr + size > g.guard_block && addr < g.guard_block + g.guard_blocklen) {
		if (addr < g.guard_buf || addr + size > g.guard_buf + g.guard_n) {
			char a[256];
			describe_stack (f, pc, a, sizeof a);
			rt_violation ("C16", V_ORACLE, "buffer-overrun", "store of %d bytes at buf%+ld outside buf[0..%d) in %s",
				      size, (long) (addr - g.guard_buf), (int) g.guard_n, a);
			end_run (RV_VIOLATION);
		}
	}
}

extern "C" void nsim_watch_set (int slot, const void *p) {
	if (slot < 0 || slot >= NSIM_MAXWATCH) return;
	if (!g.watch[slot].active) g.nwatch++;
	g.watch[slot].addr = (uintptr_t) p; g.watch[slot].first_tid = -1; g.watch[slot].active = 1;
}
extern "C" int nsim_watch_first_writer (int slot) { return (slot >= 0 && slot < NSIM_MAXWATCH && g.watch[slot].active) ? g.watch[slot].first_tid : -1; }
extern "C" const void *nsim_watch_addr (int slot) { return (slot >= 0 && slot < NSIM_MAXWATCH && g.watch[slot].active) ? (const void *) g.watch[slot].addr : NULL; }
extern "C" void nsim_watch_arm_on_store (int slot, const char *func) { if (g.cur) { g.cur->aw_slot = slot; g.cur->aw_func = func; } }
extern "C" void nsim_watch_clear (int slot) {
	if (slot < 0 || slot >= NSIM_MAXWATCH || !g.watch[slot].active) return;
	g.watch[slot].active = 0; g.nwatch--;
}
extern "C" void nsim_guard_buffer (void *buf, int n, void *block, int blocklen) {
	g.guard_buf = (uintptr_t) buf; g.guard_n = n; g.guard_block = (uintptr_t) block; g.guard_blocklen = blocklen;
}
extern "C" void nsim_unguard_buffer (void) { g.guard_block = 0; }

// ------------------------------------------------------------------------------------------
// Arena
static void *arena_alloc (size_t n, uintptr_t pc) {
	n = (n + 15) & ~(size_t) 15;
	uintptr_t p = ARENA_BASE + g.arena_used + 32;     // 32-byte red zone before every block
	if (p + n + 32 > ARENA_BASE + ARENA_SIZE) {
		fprintf (stderr, "nsim: arena exhausted\n");
		_exit (3);
	}
	g.arena_used = (p + n) - ARENA_BASE;
	Region *r = &g.regions[0];
	for (uintptr_t a = p; a < p + n; a += 4) {
		Cell *c = &r->cells[(a - r->lo) >> 2];
		memset (c, 0, sizeof (Cell));
		c->stamp = g.stamp; c->live = 1;
	}
	// record size in a side table for free
	g.blocks.push_back ({ p, n });
	(void) pc;
	return (void *) p;
}
static size_t arena_block_size (uintptr_t p) {
	for (auto &b : g.blocks) if (b.p == p) return b.n;
	return 0;
}
static void arena_free (void *vp, uintptr_t pc) {
	uintptr_t p = (uintptr_t) vp;
	size_t n = arena_block_size (p);
	if (n == 0) {
		rt_violation (NULL, V_ORACLE, "bad-free", "free of non-block pointer %p", vp);
		end_run (RV_VIOLATION);
	}
	Region *r = &g.regions[0];
	Cell *c0 = cell_of (r, p);
	if (c0->live == 2) {
		rt_violation (nsim_cfg.prop_reclaim, V_DEAD_ACCESS, "double-free", "double free of %p", vp);
		end_run (RV_VIOLATION);
	}
	shadow_access (p, n, 4, pc);     // reclamation is a write
	for (uintptr_t a = p; a < p + n; a += 4) cell_of (r, a)->live = 2;
	memset (vp, 0xdd, n);
	g.nfrees++;
}
extern "C" void *nsim_alloc (size_t n) {
	void *p = arena_alloc (n, 0);
	memset (p, 0, n);
	return p;
}
extern "C" void nsim_free_obj (void *p) { arena_free (p, (uintptr_t) __builtin_return_address (0)); }
extern "C" int nsim_is_live (const void *p) {
	Region *r = region_of ((uintptr_t) p);
	if (!r || r->kind != REG_ARENA) return 1;
	return cell_of (r, (uintptr_t) p & ~(uintptr_t) 3)->live == 1;
}
extern "C" void nsim_client_read (const void *p, int size, int site) {
	TRACE ("client read  0x%lx", (unsigned long) p);
	shadow_access ((uintptr_t) p, size, 0, 0);
	(void) site;
}
extern "C" void nsim_client_write (void *p, int size, int site) {
	TRACE ("client write 0x%lx", (unsigned long) p);
	shadow_access ((uintptr_t) p, size, 1, 0);
	(void) site;
}

// ------------------------------------------------------------------------------------------
// Scheduler
static void end_run (int verdict) __attribute__ ((noreturn));
static void wake (Fibre *f, int res) {
	f->st = F_RUNNABLE;
	f->wake_res = res;
	f->has_deadline = false;
	f->fault_kind = 0;
	g.progress_mark = g.steps;
	g.spin_yields = 0;
}

static int64_t earliest_deadline () {
	int64_t best = INT64_MAX;
	for (int i = 0; i < g.nfib; i++) {
		Fibre *f = &g.fib[i];
		if ((f->st == F_FUTEX || f->st == F_PCOND || f->st == F_SLEEP) && f->has_deadline && f->deadline < best) best = f->deadline;
	}
	return best;
}
static void expire_deadlines () {
	for (int i = 0; i < g.nfib; i++) {
		Fibre *f = &g.fib[i];
		if ((f->st == F_FUTEX || f->st == F_PCOND || f->st == F_SLEEP) && f->has_deadline && f->deadline <= g.now) {
			TRACE ("timer fires for t%d (deadline %lld)", f->tid, (long long) (f->deadline - g.start));
			if (f->st != F_SLEEP) f->op_last_timer_wake_ns = g.now;      // the timer of a wait, not the end of a plain sleep (back-off)
			wake (f, ETIMEDOUT);
		}
	}
}
static bool fire_fault_timers (bool force_one) {
	bool any = false;
	Fibre *best = NULL;
	for (int i = 0; i < g.nfib; i++) {
		Fibre *f = &g.fib[i];
		if ((f->st == F_FUTEX || f->st == F_PCOND) && f->fault_kind) {
			if (f->fault_step <= g.steps) {
				int res = (f->fault_kind == CH_F_EARLYTO) ? ETIMEDOUT : (f->fault_kind == CH_F_EINTR ? EINTR : 0);
				TRACE ("fault %d delivered to t%d", f->fault_kind, f->tid);
				wake (f, res | 0x10000);   // marked as a fault result
				any = true;
			} else if (!best || f->fault_step < best->fault_step) best = f;
		}
	}
	if (!any && force_one && best) {
		int res = (best->fault_kind == CH_F_EARLYTO) ? ETIMEDOUT : (best->fault_kind == CH_F_EINTR ? EINTR : 0);
		TRACE ("fault %d delivered to t%d (idle)", best->fault_kind, best->tid);
		wake (best, res | 0x10000);
		any = true;
	}
	return any;
}
static void eval_preds () {
	for (int i = 0; i < g.nfib; i++) {
		Fibre *f = &g.fib[i];
		if (f->st == F_PRED && f->pred (f->pred_arg)) wake (f, 0);
		else if (f->st == F_JOIN && g.fib[f->join_tid].st == F_DONE) wake (f, 0);
	}
}

static void switch_to (Fibre *next) {
	Fibre *prev = g.cur;
	if (next == prev) return;
	g.switches++;
	if (prev && prev->fdepth > 0) g.switches_in_nsync++;
	g.cur = next;
	hfold (0x5157ULL << 32 | (uint64_t) next->tid);
	TRACE ("switch -> t%d", next->tid);
	if (prev) {
		prev->saved_sp = (uintptr_t) __builtin_frame_address (0);
		if (_setjmp (prev->jb) == 0) {
			prev->jb_valid = 1;
			if (next->jb_valid) _longjmp (next->jb, 1);
			setcontext (&next->ctx);        // first entry of next (made by makecontext)
		}
		// resumed here by somebody's _longjmp
	} else {
		setcontext (&next->ctx);
	}
}

static void end_run (int verdict) {
	g.verdict = verdict;
	g.in_run = false;
	Fibre *prev = g.cur;
	g.cur = NULL;
	if (prev) swapcontext (&prev->ctx, &g.main_ctx); else setcontext (&g.main_ctx);
	abort ();
}

static bool all_done () {
	for (int i = 0; i < g.nfib; i++) if (g.fib[i].st != F_DONE && g.fib[i].st != F_FREE) return false;
	return true;
}

// The single scheduling decision.  cur_can_continue: the current fibre is still runnable.
// is_yield: the current fibre yielded (must hand over if anybody else is runnable).
static void schedule (bool cur_can_continue, bool is_yield) {
	Fibre *cur = g.cur;
	g.steps++;
	g.plain_since_sched = 0;
	if (g.hold_ticks > 0 && !g.draining) g.hold_ticks--; else g.now += TICK_NS;      /* (a clock of finite resolution: see jump kind 4) */
	if (!g.draining && g.steps > g.B1) {
		g.draining = true;
		g.drained_runs_flag = 1;
		TRACE ("--- drain phase ---");
	}
	if (g.draining && g.steps > g.B1 + g.B2 + (nsim_cfg.extra_steps > 0 ? nsim_cfg.extra_steps : 0)) {
		end_run (RV_NO_PROGRESS);
	}
	if (is_yield) g.spin_yields++;
	fire_fault_timers (false);
	// F6: clock jump choice while timed waits are pending
	if (!g.draining) {      // (always a recorded choice, so that a choice list does not depend on the policy that produced it)
		int64_t ed = earliest_deadline ();
		if (ed != INT64_MAX && ed > g.now) {
			int sv = 0;
			if (!g.replay_mode && g.pol.p_jump > 0 && rnd_p (g.rng, g.pol.p_jump)) sv = 1 + rnd (g.rng, 4);
			int v = take_choice (CH_CLOCK, 5, sv);
			if (v == 1) g.now = ed - 1;
			else if (v == 2) g.now = ed;
			else if (v == 4) { g.now = ed; g.hold_ticks = 24; }     // onto the deadline, and the clock then shows that same value for a while
			                                                          // (finite resolution: consecutive readings may be equal)
			else if (v == 3) g.now = ed + 1 + (int64_t) (g.steps % 7) * 1000;
			if (v) { g.clock_jumps++; TRACE ("clock jump kind %d to +%lld", v, (long long) (g.now - g.start)); }
		}
	}
	for (;;) {
		expire_deadlines ();
		eval_preds ();
		// spinning with only time able to make progress: let time pass
		if (g.spin_yields > 6 * (g.nfib + 1)) {
			int64_t ed = earliest_deadline ();
			if (ed != INT64_MAX && ed > g.now) {
				g.now = ed;
				g.idle_jumps++;
				g.spin_yields = 0;
				TRACE ("spin-idle clock jump to +%lld", (long long) (g.now - g.start));
				continue;
			} else if (fire_fault_timers (true)) {
				g.spin_yields = 0;
				continue;
			}
		}
		int cands[NSIM_MAXSLOTS];
		int n = 0;
		int base = cur ? cur->tid : 0;
		bool cur_first = false;
		// the current fibre may have been made runnable again by a timer, a predicate or quiescence
		bool cur_ok = cur && cur->st == F_RUNNABLE && (cur_can_continue || true);
		if (cur_ok && cur_can_continue && !is_yield) { cands[n++] = cur->tid; cur_first = true; }
		for (int k = 1; k <= g.nfib; k++) {
			int i = (base + k) % g.nfib;
			if (cur && i == cur->tid) continue;
			if (g.fib[i].st == F_RUNNABLE) cands[n++] = i;
		}
		if (cur_ok && !cur_first) {
			// a yielding fibre, or one that blocked and was woken meanwhile: last in cyclic order
			if (!(is_yield && n > 0)) cands[n++] = cur->tid;
		}
		if (n == 0) {
			// nobody runnable: timers, then quiescence waiters, then end of run
			int64_t ed = earliest_deadline ();
			if (fire_fault_timers (true)) continue;
			if (ed != INT64_MAX) {
				if (ed > g.now) { g.now = ed; g.idle_jumps++; TRACE ("idle clock jump to +%lld", (long long) (g.now - g.start)); }
				for (int i = 0; i < g.nfib; i++) {
					Fibre *f = &g.fib[i];
					if ((f->st == F_FUTEX || f->st == F_PCOND || f->st == F_SLEEP) && f->has_deadline && f->deadline <= g.now) f->op_idle_jumps++;
				}
				continue;
			}
			bool q = false;
			for (int i = 0; i < g.nfib; i++) if (g.fib[i].st == F_QUIESCE) { wake (&g.fib[i], 0); g.fib[i].quiesce_ok = 1; q = true; break; }
			if (q) continue;
			if (all_done ()) end_run (RV_FINISHED);
			end_run (RV_STUCK);
		}
		int pick;
		if (n == 1) pick = 0;
		else if (g.draining) pick = 0;
		else {
			int sv = 0;
			if (!g.replay_mode) sv = policy_sched (n, cur_first, cands);
			pick = take_choice (CH_SCHED, n, sv);
		}
		Fibre *next = &g.fib[cands[pick]];
		if (next != cur) switch_to (next);
		return;
	}
}

static int policy_sched (int n, bool cur_first, int *cands) {
	switch (g.pol.kind) {
	case POL_UNIFORM:
		return rnd (g.rng, n);
	case POL_STICKY:
		if (cur_first) {
			if (rnd_p (g.rng, g.pol.q)) return 0;
			return 1 + rnd (g.rng, n - 1);
		}
		return rnd (g.rng, n);
	case POL_PCT: {
		// priority change points
		for (int i = 0; i < g.pol.d - 1; i++) {
			if (g.pol.change_at[i] >= 0 && g.steps >= g.pol.change_at[i]) {
				g.pol.change_at[i] = -1;
				if (g.cur) g.pol.prio[g.cur->tid] = g.pol.d - 2 - i;   // lowest levels
			}
		}
		int best = 0;
		for (int i = 1; i < n; i++) if (g.pol.prio[cands[i]] > g.pol.prio[cands[best]]) best = i;
		return best;
	}
	case POL_PRIO: {
		// optional noise: now and then a uniformly random runnable fibre gets the step (near-adversarial schedules)
		if (nsim_cfg.policy_noise > 0 && n > 1 && rnd_p (g.rng, (uint32_t) nsim_cfg.policy_noise)) return rnd (g.rng, n);
		int best = 0;
		for (int i = 1; i < n; i++) if (g.pol.prio[cands[i]] > g.pol.prio[cands[best]]) best = i;
		return best;
	}
	case POL_RR:
		return cur_first ? (n > 1 && rnd_p (g.rng, 10000 - g.pol.q) ? 1 : 0) : 0;
	}
	return 0;
}

// scheduling point after an event of the current fibre
static inline void sched_point () { schedule (true, false); }

extern "C" void nsim_point (void) { if (g.in_run && g.cur) sched_point (); }
extern "C" void nsim_yield (void) {
	if (!g.in_run || !g.cur) return;
	if (g.pol.kind == POL_PCT && !g.replay_mode) g.pol.prio[g.cur->tid] = g.pol.low_prio--;
	g.now += g.draining ? 100 * YIELD_NS : YIELD_NS;
	schedule (true, true);
}

static void block_current (FState st) {
	Fibre *f = g.cur;
	f->st = st;
	g.progress_mark = g.steps;
	schedule (false, false);
}

// fibre entry trampoline
static void fibre_main (unsigned lo, unsigned hi) {
	Fibre *f = (Fibre *) (((uintptr_t) hi << 32) | lo);
	f->fn (f->arg);
	// thread exit: run TLS destructors (pthread_key semantics): passes are repeated while a destructor has stored a new value
	// (PTHREAD_DESTRUCTOR_ITERATIONS = 4); POSIX leaves the order within a pass unspecified, so with two or more pending keys
	// the order (ascending / descending) is a recorded choice
	for (int pass = 0; pass < 4; pass++) {
		int pending = 0;
		for (int k = 0; k < MAXKEYS; k++) if (f->tls_val[k] && g.key_dtor[k]) pending++;
		if (!pending) break;
		int rev = pending > 1 ? nsim_choose (CH_HARNESS, 2) : 0;
		for (int i = 0; i < MAXKEYS; i++) {
			int k = rev ? MAXKEYS - 1 - i : i;
			if (f->tls_val[k] && g.key_dtor[k]) {
				void *v = f->tls_val[k];
				f->tls_val[k] = NULL;
				f->opname = "thread-exit";
				g.key_dtor[k] (v);
			}
		}
	}
	// exit is a release towards joiners
	vc_copy (f->exit_vc, f->vc);
	f->st = F_DONE;
	TRACE ("fibre exits");
	g.progress_mark = g.steps;
	g.spin_yields = 0;
	schedule (false, false);
	abort ();
}

extern "C" int nsim_spawn (void (*fn) (void *), void *arg) {
	int slot = -1;
	if (g.nfib < NSIM_MAXSLOTS) slot = g.nfib++;
	else if (!nsim_cfg.hb_on) {
		for (int i = 1; i < g.nfib; i++) if (g.fib[i].st == F_DONE) { slot = i; break; }
	}
	if (slot < 0) {
		// more simultaneously live fibres than the simulator supports: the run is discarded (counted, not judged)
		g.limit_hits++;
		end_run (RV_LIMIT);
	}
	Fibre *f = &g.fib[slot];
	char *stack = (char *) (STACKS_BASE + (uintptr_t) slot * STACK_SIZE);
	uintptr_t keep_lo = (uintptr_t) stack;
	memset ((void *) f, 0, sizeof (Fibre));
	f->tid = slot;
	f->fn = fn; f->arg = arg;
	f->stack_lo = keep_lo; f->stack_hi = keep_lo + STACK_SIZE;
	f->saved_sp = f->stack_hi;
	f->min_sp = f->stack_hi;
	getcontext (&f->ctx);
	f->ctx.uc_stack.ss_sp = stack;
	f->ctx.uc_stack.ss_size = STACK_SIZE;
	f->ctx.uc_link = NULL;
	uintptr_t fp = (uintptr_t) f;
	makecontext (&f->ctx, (void (*) ()) fibre_main, 2, (unsigned) (fp & 0xffffffffu), (unsigned) (fp >> 32));
	f->st = F_RUNNABLE;
	g.fibres_total++;
	if (g.pol.kind == POL_PCT) g.pol.prio[slot] = g.pol.d + (int) rnd (g.rng, 1000);
	if (g.pol.kind == POL_PRIO) g.pol.prio[slot] = 0;
	// happens-before: spawn edge
	if (g.cur) {
		vc_copy (f->vc, g.cur->vc);
		g.cur->vc[g.cur->tid]++;
	}
	f->vc[slot] = (f->vc[slot] > 0 ? f->vc[slot] : 0) + 1;
	hfold (0x5bacULL << 32 | (uint64_t) slot);
	TRACE ("spawn t%d", slot);
	if (g.cur) sched_point ();
	return slot;
}
extern "C" int nsim_self (void) { return g.cur ? g.cur->tid : -1; }
extern "C" int nsim_is_done (int tid) { return g.fib[tid].st == F_DONE; }
extern "C" int nsim_nfibres (void) { return g.nfib; }
extern "C" void nsim_join (int tid) {
	Fibre *f = g.cur;
	if (g.fib[tid].st != F_DONE) {
		f->join_tid = tid;
		block_current (F_JOIN);
	}
	vc_join (f->vc, g.fib[tid].exit_vc);
}
extern "C" void nsim_wait_until (int (*pred) (void *), void *arg) {
	Fibre *f = g.cur;
	if (pred (arg)) { sched_point (); return; }
	f->pred = pred; f->pred_arg = arg;
	block_current (F_PRED);
}
extern "C" void nsim_quiesce (void) {
	g.cur->quiesce_ok = 0;
	block_current (F_QUIESCE);
}
extern "C" int nsim_quiesced_ok (void) { return g.cur->quiesce_ok; }
extern "C" int nsim_fibre_state (int tid) { return (int) g.fib[tid].st; }
extern "C" const char *nsim_fibre_op (int tid) { return g.fib[tid].opname ? g.fib[tid].opname : ""; }
extern "C" int nsim_fibre_has_timer (int tid) { return g.fib[tid].has_deadline || g.fib[tid].fault_kind; }
extern "C" int nsim_fibre_in_func (int tid, const char *fname) {
	Fibre *f = &g.fib[tid];
	for (int i = 0; i < f->fdepth && i < MAXFSTACK; i++) {
		if (strcmp (rt_symname (f->fself[i]), fname) == 0) return 1;
	}
	return 0;
}

extern "C" void nsim_op_begin (const char *name) {
	Fibre *f = g.cur;
	f->opname = name;
	f->op_sleeps = 0; f->op_atomics = 0; f->op_idle_jumps = 0; f->op_last_timed_block_ns = -1; f->op_last_timer_wake_ns = -1;
	f->op_sp_top = (uintptr_t) __builtin_frame_address (0) + 16;
	f->min_sp = f->op_sp_top;
	hfold (0x0b00ULL << 32 | (uint64_t) (uintptr_t) name);
	TRACE ("op %s begin", name);
	g.progress_mark = g.steps; g.spin_yields = 0;
	sched_point ();
}
extern "C" void nsim_op_end (void) {
	Fibre *f = g.cur;
	TRACE ("op %s end", f->opname ? f->opname : "?");
	if (nsim_cfg.frame_death && f->min_sp < f->op_sp_top) {
		// the frames of the call are dead now: reclamation is a write
		shadow_access (f->min_sp, f->op_sp_top - f->min_sp, 4, 0);
		f->min_sp = f->op_sp_top;
	}
	f->no_write_window = 0;
	g.progress_mark = g.steps; g.spin_yields = 0;
	sched_point ();
}
extern "C" int nsim_op_sleeps (void) { return g.cur->op_sleeps; }
extern "C" int nsim_op_atomics (void) { return g.cur->op_atomics; }
extern "C" int nsim_op_idle_jumps (void) { return g.cur->op_idle_jumps; }
extern "C" int64_t nsim_op_last_timed_block_ns (void) { return g.cur->op_last_timed_block_ns; }
extern "C" int64_t nsim_op_last_timer_wake_ns (void) { return g.cur->op_last_timer_wake_ns; }

extern "C" int64_t nsim_now_ns (void) { return g.now; }
extern "C" int64_t nsim_start_ns (void) { return g.start; }
extern "C" void nsim_advance_ns (int64_t d) { if (d > 0) g.now += d; }

extern "C" void nsim_hb_release (int chan) {
	Fibre *f = g.cur;
	if (!f) return;
	vc_join (g.chan_vc[chan], f->vc);
	f->vc[f->tid]++;
}
extern "C" void nsim_hb_acquire (int chan) {
	Fibre *f = g.cur;
	if (!f) return;
	vc_join (f->vc, g.chan_vc[chan]);
}

// ------------------------------------------------------------------------------------------
// Atomic operations (TSan ABI).  Memory orders: 0 relaxed 1 consume 2 acquire 3 release 4 acq_rel 5 seq_cst
static SyncVar *syncvar (uintptr_t a) {
	unsigned h = (unsigned) ((a >> 2) * 2654435761u) % NSYNCVARS;
	for (;;) {
		SyncVar *s = &g.sync[h];
		if (s->stamp != g.stamp) { s->stamp = g.stamp; s->addr = a; vc_zero (s->L); s->has = false; return s; }
		if (s->addr == a) return s;
		h = (h + 1) % NSYNCVARS;
	}
}
static inline bool mo_acq (int mo) { return mo == 1 || mo == 2 || mo == 4 || mo == 5; }
static inline bool mo_rel (int mo) { return mo == 3 || mo == 4 || mo == 5; }

static void check_mu_word (uintptr_t a, uint32_t v, uintptr_t pc) {
	for (int i = 0; i < g.nmus; i++) {
		if (g.mus[i].addr == a) {
			if ((v & nsim_cfg.mu_wlock) && (v & nsim_cfg.mu_rlock_field)) {
				char sbuf[256];
				describe_stack (g.cur, pc, sbuf, sizeof sbuf);
				rt_violation ("C01", V_WORD_INVARIANT, rt_symname (pc), "mutex word 0x%x shows a writer and readers at once, stored in %s", v, sbuf);
				end_run (RV_VIOLATION);
			}
			return;
		}
	}
}

static inline void atomic_prologue (uintptr_t a, bool write, uintptr_t pc) {
	Fibre *f = g.cur;
	f->op_atomics++;
	shadow_access (a, 4, write ? 3 : 2, pc);
}

extern "C" uint32_t __tsan_atomic32_load (const volatile uint32_t *p, int mo) {
	if (!g.in_run || !g.cur) return *p;
	Fibre *f = g.cur;
	uintptr_t pc = (uintptr_t) __builtin_return_address (0);
	atomic_prologue ((uintptr_t) p, false, pc);
	uint32_t v = *p;
	if (nsim_cfg.hb_on && mo_acq (mo)) {
		SyncVar *s = syncvar ((uintptr_t) p);
		if (s->has) vc_join (f->vc, s->L);
	}
	hfold (0x10adULL << 32 ^ addr_id ((uintptr_t) p) << 8 ^ (uint64_t) v << 3 ^ (uint64_t) mo);
	TRACE ("load  %s 0x%lx -> 0x%x (mo %d)", rt_symname (pc), (unsigned long) p, v, mo);
	g.natomics++;
	sched_point ();
	return v;
}
extern "C" void __tsan_atomic32_store (volatile uint32_t *p, uint32_t v, int mo) {
	if (!g.in_run || !g.cur) { *p = v; return; }
	Fibre *f = g.cur;
	uintptr_t pc = (uintptr_t) __builtin_return_address (0);
	atomic_prologue ((uintptr_t) p, true, pc);
	*p = v;
	if (f->aw_func && v == 1 && strstr (rt_symname (pc), f->aw_func)) {      // "waiting = 1"
		nsim_watch_set (f->aw_slot, (const void *) p);
		f->aw_func = NULL;
	}
	if (nsim_cfg.hb_on) {
		SyncVar *s = syncvar ((uintptr_t) p);
		if (mo_rel (mo)) { vc_copy (s->L, f->vc); s->has = true; f->vc[f->tid]++; }
		else { vc_zero (s->L); s->has = false; }
	}
	if (g.nmus) check_mu_word ((uintptr_t) p, v, pc);
	hfold (0x5702ULL << 32 ^ addr_id ((uintptr_t) p) << 8 ^ (uint64_t) v << 3 ^ (uint64_t) mo);
	TRACE ("store %s 0x%lx <- 0x%x (mo %d)", rt_symname (pc), (unsigned long) p, v, mo);
	g.natomics++;
	g.progress_mark = g.steps; g.spin_yields = 0;
	sched_point ();
}
static int cas_common (volatile uint32_t *p, uint32_t *expected, uint32_t desired, int mo, int fmo, uintptr_t pc) {
	if (!g.in_run || !g.cur) {
		if (*p == *expected) { *p = desired; return 1; }
		*expected = *p;
		return 0;
	}
	Fibre *f = g.cur;
	int ok;
	uint32_t old = *p;
	if (old == *expected) {
		atomic_prologue ((uintptr_t) p, true, pc);
		*p = desired;
		ok = 1;
		if (nsim_cfg.hb_on) {
			SyncVar *s = syncvar ((uintptr_t) p);
			if (mo_acq (mo) && s->has) vc_join (f->vc, s->L);
			if (mo_rel (mo)) { vc_join (s->L, f->vc); s->has = true; f->vc[f->tid]++; }
			// an RMW without release continues the release sequence: L unchanged
		}
		if (g.nmus) check_mu_word ((uintptr_t) p, desired, pc);
		g.progress_mark = g.steps; g.spin_yields = 0;
	} else {
		atomic_prologue ((uintptr_t) p, false, pc);
		*expected = old;
		ok = 0;
		if (nsim_cfg.hb_on && mo_acq (fmo)) {
			SyncVar *s = syncvar ((uintptr_t) p);
			if (s->has) vc_join (f->vc, s->L);
		}
	}
	hfold (0xca5ULL << 32 ^ addr_id ((uintptr_t) p) << 8 ^ (uint64_t) old << 3 ^ (uint64_t) (mo * 8 + ok));
	TRACE ("cas   %s 0x%lx 0x%x -> 0x%x %s (mo %d)", rt_symname (pc), (unsigned long) p, old, desired, ok ? "ok" : "FAILED", mo);
	g.natomics++;
	sched_point ();
	return ok;
}
extern "C" int __tsan_atomic32_compare_exchange_strong (volatile uint32_t *p, uint32_t *e, uint32_t d, int mo, int fmo) {
	return cas_common (p, e, d, mo, fmo, (uintptr_t) __builtin_return_address (0));
}
extern "C" int __tsan_atomic32_compare_exchange_weak (volatile uint32_t *p, uint32_t *e, uint32_t d, int mo, int fmo) {
	return cas_common (p, e, d, mo, fmo, (uintptr_t) __builtin_return_address (0));
}
extern "C" uint32_t __tsan_atomic32_compare_exchange_val (volatile uint32_t *p, uint32_t e, uint32_t d, int mo, int fmo) {
	cas_common (p, &e, d, mo, fmo, (uintptr_t) __builtin_return_address (0));
	return e;
}
// operations nsync does not use: implemented for completeness through CAS
extern "C" uint32_t __tsan_atomic32_exchange (volatile uint32_t *p, uint32_t v, int mo) {
	uint32_t e = *p;
	while (!cas_common (p, &e, v, mo, 0, (uintptr_t) __builtin_return_address (0))) { }
	return e;
}
extern "C" uint32_t __tsan_atomic32_fetch_add (volatile uint32_t *p, uint32_t v, int mo) {
	uint32_t e = *p;
	while (!cas_common (p, &e, e + v, mo, 0, (uintptr_t) __builtin_return_address (0))) { }
	return e;
}
extern "C" uint32_t __tsan_atomic32_fetch_sub (volatile uint32_t *p, uint32_t v, int mo) {
	uint32_t e = *p;
	while (!cas_common (p, &e, e - v, mo, 0, (uintptr_t) __builtin_return_address (0))) { }
	return e;
}
extern "C" void __tsan_atomic_thread_fence (int mo) { (void) mo; }
extern "C" void __tsan_atomic_signal_fence (int mo) { (void) mo; }

// plain accesses
#define RD(n) extern "C" void __tsan_read##n (void *p) { if (g.in_run) shadow_access ((uintptr_t) p, n, 0, (uintptr_t) __builtin_return_address (0)); } \
	extern "C" void __tsan_unaligned_read##n (void *p) { if (g.in_run) shadow_access ((uintptr_t) p, n, 0, (uintptr_t) __builtin_return_address (0)); }
#define WR(n) extern "C" void __tsan_write##n (void *p) { if (g.in_run) shadow_access ((uintptr_t) p, n, 1, (uintptr_t) __builtin_return_address (0)); } \
	extern "C" void __tsan_unaligned_write##n (void *p) { if (g.in_run) shadow_access ((uintptr_t) p, n, 1, (uintptr_t) __builtin_return_address (0)); }
RD (1) RD (2) RD (4) RD (8) RD (16) WR (1) WR (2) WR (4) WR (8) WR (16)
extern "C" void __tsan_read_range (void *p, size_t n) { if (g.in_run) shadow_access ((uintptr_t) p, n, 0, (uintptr_t) __builtin_return_address (0)); }
extern "C" void __tsan_write_range (void *p, size_t n) { if (g.in_run) shadow_access ((uintptr_t) p, n, 1, (uintptr_t) __builtin_return_address (0)); }
extern "C" void __tsan_vptr_update (void **vptr, void *val) { (void) vptr; (void) val; }
extern "C" void __tsan_vptr_read (void **vptr) { (void) vptr; }
extern "C" void __tsan_init (void) { }
extern "C" void __tsan_func_entry (void *pc) {
	Fibre *f = g.cur;
	if (!f) return;
	f->last_entered = (uintptr_t) __builtin_return_address (0);
	if (f->fdepth < MAXFSTACK) { f->fstack[f->fdepth] = (uintptr_t) pc; f->fself[f->fdepth] = f->last_entered; }
	f->fdepth++;
	uintptr_t sp = (uintptr_t) __builtin_frame_address (0);
	if (sp < f->min_sp) f->min_sp = sp;
}
extern "C" void __tsan_func_exit (void) {
	Fibre *f = g.cur;
	if (!f) return;
	if (f->fdepth > 0) f->fdepth--;
}

// nsync's annotations: in-library occupancy model + "inside the library" marker
static MuModel *mu_model (uintptr_t a, bool create) {
	for (int i = 0; i < g.nmus; i++) if (g.mus[i].addr == a) return &g.mus[i];
	if (!create || g.nmus >= MAXMUS) return NULL;
	MuModel *m = &g.mus[g.nmus++];
	memset (m, 0, sizeof *m);
	m->addr = a; m->writer = -1;
	return m;
}
extern "C" void nsim_register_mu (void *mu) { mu_model ((uintptr_t) mu, true); }
extern "C" void AnnotateIgnoreWritesBegin (const char *file, int line) { (void) file; (void) line; if (g.cur) g.cur->ignore_depth++; }
extern "C" void AnnotateIgnoreWritesEnd (const char *file, int line) { (void) file; (void) line; if (g.cur) g.cur->ignore_depth--; }
extern "C" void AnnotateIgnoreReadsBegin (const char *file, int line) { (void) file; (void) line; }
extern "C" void AnnotateIgnoreReadsEnd (const char *file, int line) { (void) file; (void) line; }
extern "C" void AnnotateRWLockCreate (const char *file, int line, void *mu) {
	(void) file; (void) line;
	if (!g.in_run) return;
	MuModel *m = mu_model ((uintptr_t) mu, true);
	if (m) { m->writer = -1; m->nreaders = 0; memset (m->rd, 0, sizeof m->rd); }
}
extern "C" void AnnotateRWLockAcquired (const char *file, int line, void *mu, long write) {
	if (!g.in_run || !g.cur) return;
	Fibre *f = g.cur;
	MuModel *m = mu_model ((uintptr_t) mu, true);
	if (!m) return;
	const char *base = strrchr (file, '/'); base = base ? base + 1 : file;
	TRACE ("ACQUIRED %s mu=0x%lx at %s:%d", write ? "W" : "R", (unsigned long) mu, base, line);
	hfold (0xacc1ULL << 32 ^ addr_id ((uintptr_t) mu) << 4 ^ (uint64_t) write);
	if (m->writer >= 0 || (write && m->nreaders > 0)) {
		char site[96];
		snprintf (site, sizeof site, "%s", rt_symname ((uintptr_t) __builtin_return_address (0)));
		rt_violation ("C01", V_MUTEX_OVERLAP, site,
			      "t%d acquired mu 0x%lx in %s mode at %s:%d while model has writer=t%d readers=%d (word=0x%x)",
			      f->tid, (unsigned long) mu, write ? "write" : "read", base, line, m->writer, m->nreaders, *(uint32_t *) mu);
		end_run (RV_VIOLATION);
	}
	if (write) m->writer = f->tid; else { m->nreaders++; m->rd[f->tid]++; }
	g.nacquires++;
}
extern "C" void AnnotateRWLockReleased (const char *file, int line, void *mu, long write) {
	if (!g.in_run || !g.cur) return;
	Fibre *f = g.cur;
	MuModel *m = mu_model ((uintptr_t) mu, true);
	if (!m) return;
	const char *base = strrchr (file, '/'); base = base ? base + 1 : file;
	TRACE ("RELEASE  %s mu=0x%lx at %s:%d", write ? "W" : "R", (unsigned long) mu, base, line);
	hfold (0x4e1ULL << 32 ^ addr_id ((uintptr_t) mu) << 4 ^ (uint64_t) write);
	bool bad = write ? (m->writer != f->tid) : (m->rd[f->tid] <= 0);
	if (bad) {
		char site[96];
		snprintf (site, sizeof site, "%s", rt_symname ((uintptr_t) __builtin_return_address (0)));
		rt_violation ("C01", V_MUTEX_OVERLAP, site,
			      "t%d releases mu 0x%lx in %s mode at %s:%d but model has writer=t%d readers=%d (own read holds %d)",
			      f->tid, (unsigned long) mu, write ? "write" : "read", base, line, m->writer, m->nreaders, m->rd[f->tid]);
		end_run (RV_VIOLATION);
	}
	if (write) m->writer = -1; else { m->nreaders--; m->rd[f->tid]--; }
}
extern "C" int nsim_model_holds (const void *mu, int tid, int *is_writer) {
	MuModel *m = mu_model ((uintptr_t) mu, false);
	if (!m) return 0;
	if (m->writer == tid) { if (is_writer) *is_writer = 1; return 1; }
	if (m->rd[tid] > 0) { if (is_writer) *is_writer = 0; return 1; }
	return 0;
}
extern "C" int nsim_model_writer (const void *mu) { MuModel *m = mu_model ((uintptr_t) mu, false); return m ? m->writer : -1; }
extern "C" int nsim_model_readers (const void *mu) { MuModel *m = mu_model ((uintptr_t) mu, false); return m ? m->nreaders : 0; }

// ------------------------------------------------------------------------------------------
// Kernel model: futex
static int futex_wait (uint32_t *uaddr, uint32_t val, const struct timespec *ts, bool absolute) {
	Fibre *f = g.cur;
	uintptr_t pc = (uintptr_t) __builtin_return_address (0);
	sched_point ();          // the call itself is a scheduling point
	g.futex_waits++;
	bool has_dl = false;
	int64_t dl = 0;
	if (ts) {
		// Linux: timespec64_valid(): tv_sec >= 0 && tv_nsec in [0, 1e9)
		if (ts->tv_sec < 0 || ts->tv_nsec < 0 || ts->tv_nsec >= 1000000000L) {
			g.faults_fired[CH_NKINDS]++;   // F11 counter slot
			TRACE ("futex_wait EINVAL (tv_sec=%ld tv_nsec=%ld)", (long) ts->tv_sec, (long) ts->tv_nsec);
			errno = EINVAL;
			return -1;
		}
		has_dl = true;
		if (ts->tv_sec > (time_t) (INT64_MAX / 2000000000LL)) { has_dl = false; }  // saturates to "never" (KTIME_MAX)
		else {
			dl = (int64_t) ts->tv_sec * 1000000000LL + ts->tv_nsec;
			if (!absolute) dl += g.now;
		}
	}
	if (*uaddr != val) {
		g.faults_fired[CH_NKINDS + 1]++;   // F4 natural EAGAIN
		TRACE ("futex_wait EAGAIN");
		errno = EAGAIN;
		return -1;
	}
	if (choose_fault (CH_F_EINTR)) {
		TRACE ("futex_wait EINTR at entry");
		errno = EINTR;
		return -1;
	}
	if (has_dl && dl <= g.now) {
		TRACE ("futex_wait immediate ETIMEDOUT");
		errno = ETIMEDOUT;
		return -1;
	}
	f->waddr = (uintptr_t) uaddr;
	f->has_deadline = has_dl;
	f->deadline = dl;
	f->fault_kind = 0;
	if (choose_fault (CH_F_SPURIOUS)) { f->fault_kind = CH_F_SPURIOUS; }
	else if (has_dl && choose_fault (CH_F_EARLYTO)) { f->fault_kind = CH_F_EARLYTO; }
	if (f->fault_kind) f->fault_step = g.steps + 1 + take_choice (CH_WAKE_PICK, 40, g.replay_mode ? 0 : (int) rnd (g.rng, 40));
	f->op_sleeps++;
	f->total_sleeps++;
	if (has_dl) f->op_last_timed_block_ns = g.now;
	g.futex_blocks++;
	TRACE ("futex_wait blocks on 0x%lx%s", (unsigned long) uaddr, has_dl ? " (timed)" : "");
	(void) pc;
	block_current (F_FUTEX);
	int res = f->wake_res & 0xffff;
	if (res == 0) return 0;
	errno = res;
	return -1;
}
static int futex_wake (uint32_t *uaddr, int n) {
	int woken = 0;
	sched_point ();
	for (int k = 0; k < n; k++) {
		int cands[NSIM_MAXSLOTS], nc = 0;
		for (int i = 0; i < g.nfib; i++) if (g.fib[i].st == F_FUTEX && g.fib[i].waddr == (uintptr_t) uaddr) cands[nc++] = i;
		if (nc == 0) break;
		int pick = nc > 1 ? nsim_choose (CH_WAKE_PICK, nc) : 0;
		TRACE ("futex_wake wakes t%d", cands[pick]);
		wake (&g.fib[cands[pick]], 0);
		woken++;
	}
	g.futex_wakes++;
	return woken;
}
extern "C" long nsim_sys_syscall (long nr, long a1, long a2, long a3, long a4, long a5, long a6) {
	if (!g.in_run || !g.cur) return ::syscall (nr, a1, a2, a3, a4, a5, a6);
	if (nr != SYS_futex) {
		rt_violation (NULL, V_ORACLE, "syscall", "unexpected syscall %ld from simulated code", nr);
		end_run (RV_VIOLATION);
	}
	int op = (int) a2 & ~(FUTEX_PRIVATE_FLAG | FUTEX_CLOCK_REALTIME);
	if (op == FUTEX_WAIT_BITSET) return futex_wait ((uint32_t *) a1, (uint32_t) a3, (const struct timespec *) a4, true);
	if (op == FUTEX_WAIT) return futex_wait ((uint32_t *) a1, (uint32_t) a3, (const struct timespec *) a4, false);
	if (op == FUTEX_WAKE) return futex_wake ((uint32_t *) a1, (int) a3);
	errno = ENOSYS;
	return -1;
}

// clock, yield, sleep
// F6, second form (only where the family asks for it): just before a clock read the clock may jump forward onto an instant that lies a
// round distance before a full second (or on it), so that the code under test sees readings like x.990000000 s and its own
// arithmetic on them (reading + 10 ms ...) hits the carry boundary exactly.  Always a recorded choice; at most three per run.
static void clock_align_choice () {
	if (!nsim_cfg.clock_align || g.draining) return;
	static const int64_t before[8] = { 0, 1000000, 10000000, 20000000, 30000000, 40000000, 50000000, 100000000 };
	int sv = 0;
	if (!g.replay_mode && g.align_jumps < 3 && rnd_p (g.rng, 1500)) sv = 1 + (int) rnd (g.rng, 8);
	int v = take_choice (CH_CLOCK, 9, sv);
	if (v && g.align_jumps < 3) {
		int64_t sub = g.now % 1000000000LL, want = (1000000000LL - before[v - 1]) % 1000000000LL;
		g.now += (want - sub + 1000000000LL) % 1000000000LL;
		g.align_jumps++; g.clock_jumps++;
		TRACE ("clock aligned to +%lld", (long long) (g.now - g.start));
	}
}
extern "C" int nsim_sys_clock_gettime (clockid_t clk, struct timespec *ts) {
	if (!g.in_run || !g.cur) return ::clock_gettime (clk, ts);
	clock_align_choice ();
	ts->tv_sec = g.now / 1000000000LL;
	ts->tv_nsec = g.now % 1000000000LL;
	if (g.hold_ticks == 0) g.now += CLOCKREAD_NS;
	hfold (0xc10cULL << 32 ^ (uint64_t) (g.now - g.start));
	sched_point ();
	return 0;
}
int64_t rt_cpp_now () {     // for std::chrono::system_clock::now() in the C++ configuration
	if (g.in_run && g.cur) clock_align_choice ();
	int64_t v = g.now;
	if (g.in_run && g.cur) {
		if (g.hold_ticks == 0) g.now += CLOCKREAD_NS;
		hfold (0xc10cULL << 32 ^ (uint64_t) (g.now - g.start));
		sched_point ();
	}
	return v;
}
bool rt_in_run () { return g.in_run && g.cur; }
extern "C" int64_t nsim_sys_cpp_now (void) {      // std::chrono::system_clock::now() of the simulated code (ns since the epoch)
	if (!g.in_run || !g.cur) {
		struct timespec ts;
		::clock_gettime (CLOCK_REALTIME, &ts);
		return (int64_t) ts.tv_sec * 1000000000LL + ts.tv_nsec;
	}
	return rt_cpp_now ();
}
extern "C" int nsim_sys_sched_yield (void) {
	if (!g.in_run || !g.cur) return ::sched_yield ();
	g.nyields++;
	nsim_yield ();
	return 0;
}
extern "C" int nsim_sys_nanosleep (const struct timespec *req, struct timespec *rem) {
	if (!g.in_run || !g.cur) return ::nanosleep (req, rem);
	Fibre *f = g.cur;
	f->has_deadline = true;
	f->deadline = g.now + (int64_t) req->tv_sec * 1000000000LL + req->tv_nsec;
	block_current (F_SLEEP);
	if (rem) { rem->tv_sec = 0; rem->tv_nsec = 0; }
	return 0;
}

extern "C" int nsim_sys_pthread_yield (void) { return nsim_sys_sched_yield (); }
// other ways a change to nsync might sleep or read the time: all on the virtual clock
extern "C" int nsim_sys_usleep (unsigned usec) {
	if (!g.in_run || !g.cur) return ::usleep (usec);
	struct timespec ts; ts.tv_sec = usec / 1000000; ts.tv_nsec = (long) (usec % 1000000) * 1000;
	return nsim_sys_nanosleep (&ts, NULL);
}
extern "C" unsigned nsim_sys_sleep (unsigned sec) {
	if (!g.in_run || !g.cur) return ::sleep (sec);
	struct timespec ts; ts.tv_sec = sec; ts.tv_nsec = 0;
	nsim_sys_nanosleep (&ts, NULL);
	return 0;
}
extern "C" int nsim_sys_clock_nanosleep (clockid_t clk, int flags, const struct timespec *req, struct timespec *rem) {
	if (!g.in_run || !g.cur) return ::clock_nanosleep (clk, flags, req, rem);
	struct timespec ts = *req;
	if (flags & TIMER_ABSTIME) {
		int64_t d = (int64_t) req->tv_sec * 1000000000LL + req->tv_nsec - g.now;
		if (d < 0) d = 0;
		ts.tv_sec = d / 1000000000LL; ts.tv_nsec = d % 1000000000LL;
	}
	nsim_sys_nanosleep (&ts, rem);
	return 0;
}
extern "C" int nsim_sys_gettimeofday (struct timeval *tv, void *tz) {
	if (!g.in_run || !g.cur) return ::gettimeofday (tv, (struct timezone *) tz);
	struct timespec ts;
	nsim_sys_clock_gettime (CLOCK_REALTIME, &ts);
	if (tv) { tv->tv_sec = ts.tv_sec; tv->tv_usec = ts.tv_nsec / 1000; }
	return 0;
}
extern "C" time_t nsim_sys_time (time_t *t) {
	if (!g.in_run || !g.cur) return ::time (t);
	struct timespec ts;
	nsim_sys_clock_gettime (CLOCK_REALTIME, &ts);
	if (t) *t = ts.tv_sec;
	return ts.tv_sec;
}

// malloc / free / memset from simulated code
// Is this allocation a constructor's own?  Either the caller is nsync_note_new / nsync_counter_new itself, or one of them is on
// the fibre's call stack (the allocation may sit in a helper) while the allocation is not the waiter pool's and not made from
// inside a mutex operation (nsync_waiter_new_'s unchecked malloc is outside C19's statement).
static bool is_ctor_allocation (const char *fn) {
	if (strstr (fn, "nsync_note_new") || strstr (fn, "nsync_counter_new")) return true;
	int tid = g.cur->tid;
	if (!nsim_fibre_in_func (tid, "nsync_note_new") && !nsim_fibre_in_func (tid, "nsync_counter_new")) return false;
	return !strstr (fn, "nsync_waiter_new_") && !nsim_fibre_in_func (tid, "nsync_waiter_new_") && !nsim_fibre_in_func (tid, "nsync_mu_");
}
extern "C" void *nsim_sys_malloc (size_t n) {
	if (!g.in_run || !g.cur) return ::malloc (n);
	uintptr_t pc = (uintptr_t) __builtin_return_address (0);
	const char *fn = rt_symname (pc);
	g.nmallocs++;
	TRACE ("malloc(%zu) from %s", n, fn);
	// F7: only the constructors' own allocation may fail (documented "or NULL")
	if (is_ctor_allocation (fn)) {
		g.ctor_allocs++;
		if ((nsim_cfg.fail_alloc_index > 0 && g.ctor_allocs == nsim_cfg.fail_alloc_index) || choose_fault (CH_F_ALLOC)) {
			TRACE ("malloc fails (injected)");
			if (nsim_cfg.fail_alloc_index > 0) g.faults_fired[CH_F_ALLOC]++;
			g.alloc_failures++;
			g.cur->alloc_failures++;
			g.cur->no_write_window = 1;
			sched_point ();
			return NULL;
		}
	}
	void *p = arena_alloc (n, pc);
	memset (p, 0xcd, n);
	sched_point ();
	return p;
}
extern "C" void *nsim_sys_malloc (size_t n);
extern "C" void *nsim_sys_calloc (size_t a, size_t b) {
	if (!g.in_run || !g.cur) return ::calloc (a, b);
	// same model as malloc (the caller's name decides whether it is a constructor allocation); zero-filled
	uintptr_t pc = (uintptr_t) __builtin_return_address (0);
	const char *fn = rt_symname (pc);
	g.nmallocs++;
	TRACE ("calloc(%zu,%zu) from %s", a, b, fn);
	if (is_ctor_allocation (fn)) {
		g.ctor_allocs++;
		if ((nsim_cfg.fail_alloc_index > 0 && g.ctor_allocs == nsim_cfg.fail_alloc_index) || choose_fault (CH_F_ALLOC)) {
			if (nsim_cfg.fail_alloc_index > 0) g.faults_fired[CH_F_ALLOC]++;
			g.alloc_failures++; g.cur->alloc_failures++; g.cur->no_write_window = 1;
			sched_point ();
			return NULL;
		}
	}
	void *p = arena_alloc (a * b, pc);
	::memset (p, 0, a * b);
	sched_point ();
	return p;
}
extern "C" void *nsim_sys_realloc (void *p, size_t n) {
	if (!g.in_run || !g.cur) return ::realloc (p, n);
	rt_violation (NULL, V_ORACLE, "realloc", "simulated code called realloc, which the allocator model does not support");
	end_run (RV_VIOLATION);
}
extern "C" void nsim_sys_free (void *p) {
	if (!g.in_run || !g.cur) { ::free (p); return; }
	if (!p) return;
	uintptr_t pc = (uintptr_t) __builtin_return_address (0);
	TRACE ("free(%p) from %s", p, rt_symname (pc));
	arena_free (p, pc);
	sched_point ();
}
extern "C" void *nsim_sys_memset (void *p, int c, size_t n) {
	if (g.in_run && g.cur) shadow_access ((uintptr_t) p, n, 1, (uintptr_t) __builtin_return_address (0));
	return ::memset (p, c, n);
}
extern "C" void *nsim_sys_memcpy (void *d, const void *s, size_t n) {
	if (g.in_run && g.cur) {
		shadow_access ((uintptr_t) s, n, 0, (uintptr_t) __builtin_return_address (0));
		shadow_access ((uintptr_t) d, n, 1, (uintptr_t) __builtin_return_address (0));
	}
	return ::memcpy (d, s, n);
}
extern "C" void nsim_sys_abort (void) {
	if (!g.in_run || !g.cur) ::abort ();
	char sbuf[256];
	describe_stack (g.cur, 0, sbuf, sizeof sbuf);
	const char *site = "abort";
	{
		Fibre *f = g.cur;
		int d = f->fdepth < MAXFSTACK ? f->fdepth : MAXFSTACK;
		if (d >= 1) site = rt_symname (f->fself[d - 1]);
		if (d >= 2 && strstr (site, "nsync_panic_")) site = rt_symname (f->fself[d - 2]);     // the function that panicked
	}
	rt_violation (NULL, V_PANIC, site, "abort() called: %s %s", g.panic_msg, sbuf);
	end_run (RV_VIOLATION);
}
extern "C" ssize_t nsim_sys_write (int fd, const void *buf, size_t n) {
	if (!g.in_run || !g.cur) return ::write (fd, buf, n);
	// nsync_panic_ writes its message to fd 2: capture it
	size_t l = strlen (g.panic_msg);
	size_t k = n < sizeof g.panic_msg - 1 - l ? n : sizeof g.panic_msg - 1 - l;
	memcpy (g.panic_msg + l, buf, k);
	g.panic_msg[l + k] = 0;
	for (char *q = g.panic_msg; *q; q++) if (*q == '\n') *q = ' ';
	return (ssize_t) n;
}

// pthread keys (per-thread waiter) -- thread-exit destructors run in fibre_main
extern "C" int nsim_sys_pthread_key_create (pthread_key_t *key, void (*dtor) (void *)) {
	if (g.nkeys >= MAXKEYS) return EAGAIN;
	*key = g.nkeys;
	g.key_dtor[g.nkeys++] = dtor;
	return 0;
}
extern "C" void *nsim_sys_pthread_getspecific (pthread_key_t key) {
	if (!g.cur || key >= (unsigned) MAXKEYS) return NULL;
	return g.cur->tls_val[key];
}
extern "C" int nsim_sys_pthread_setspecific (pthread_key_t key, const void *v) {
	if (!g.cur || key >= (unsigned) MAXKEYS) return EINVAL;
	g.cur->tls_val[key] = (void *) v;
	return 0;
}

// emulated TLS (-femulated-tls): one small zero- or template-initialised object per (fibre, control object)
struct emutls_object { size_t size; size_t align; union { size_t offset; void *ptr; } loc; void *templ; };
extern "C" void *nsim_sys_emutls_get_address (struct emutls_object *obj) {
	static char outside[4][16] __attribute__ ((aligned (16)));
	static void *outside_key[4];
	void **keys = (g.in_run && g.cur) ? g.cur->emu_key : outside_key;
	char (*data)[16] = (g.in_run && g.cur) ? g.cur->emu_data : outside;
	for (int i = 0; i < 4; i++) {
		if (keys[i] == (void *) obj) return data[i];
		if (keys[i] == NULL) {
			if (obj->size > 16) { rt_violation (NULL, V_ORACLE, "emutls", "thread-local object of %zu bytes not supported", obj->size); end_run (RV_VIOLATION); }
			keys[i] = (void *) obj;
			if (obj->templ) memcpy (data[i], obj->templ, obj->size); else memset (data[i], 0, 16);
			return data[i];
		}
	}
	rt_violation (NULL, V_ORACLE, "emutls", "more than 4 thread-local objects");
	end_run (RV_VIOLATION);
}

// pthread mutex / cond model (c-mutexsem): state lives in the object's own memory
struct PM { uint32_t magic; int32_t owner; uint32_t vcslot; };
struct PC { uint32_t magic; uint32_t seq; };
static uint32_t *pm_vc (uintptr_t a) {
	unsigned h = (unsigned) ((a >> 3) * 2654435761u) % NSYNCVARS;
	for (;;) {
		SyncVar *s = &g.psync[h];
		if (s->stamp != g.stamp) { s->stamp = g.stamp; s->addr = a; vc_zero (s->L); return s->L; }
		if (s->addr == a) return s->L;
		h = (h + 1) % NSYNCVARS;
	}
}
extern "C" int nsim_sys_pthread_mutex_init (pthread_mutex_t *m, const pthread_mutexattr_t *a) {
	(void) a;
	PM *p = (PM *) m; p->magic = 0x504d; p->owner = -1;
	return 0;
}
extern "C" int nsim_sys_pthread_mutex_lock (pthread_mutex_t *m) {
	if (!g.in_run || !g.cur) return ::pthread_mutex_lock (m);
	PM *p = (PM *) m;
	Fibre *f = g.cur;
	if (p->magic != 0x504d) { p->magic = 0x504d; p->owner = -1; }    /* statically initialised (PTHREAD_MUTEX_INITIALIZER, std::mutex's constructor) */
	sched_point ();
	while (p->owner != -1) {
		f->waddr = (uintptr_t) m;
		block_current (F_PMUTEX);
	}
	p->owner = f->tid;
	if (nsim_cfg.hb_on) vc_join (f->vc, pm_vc ((uintptr_t) m));
	hfold (0x9a1ULL << 32 ^ addr_id ((uintptr_t) m));
	return 0;
}
extern "C" int nsim_sys_pthread_mutex_unlock (pthread_mutex_t *m) {
	if (!g.in_run || !g.cur) return ::pthread_mutex_unlock (m);
	PM *p = (PM *) m;
	Fibre *f = g.cur;
	if (nsim_cfg.hb_on) { vc_join (pm_vc ((uintptr_t) m), f->vc); f->vc[f->tid]++; }
	p->owner = -1;
	for (int i = 0; i < g.nfib; i++) if (g.fib[i].st == F_PMUTEX && g.fib[i].waddr == (uintptr_t) m) wake (&g.fib[i], 0);
	hfold (0x9a2ULL << 32 ^ addr_id ((uintptr_t) m));
	sched_point ();
	return 0;
}
extern "C" int nsim_sys_pthread_cond_init (pthread_cond_t *c, const pthread_condattr_t *a) {
	(void) a;
	PC *p = (PC *) c; p->magic = 0x5043; p->seq = 0;
	return 0;
}
extern "C" int nsim_sys_pthread_cond_timedwait (pthread_cond_t *c, pthread_mutex_t *m, const struct timespec *ts);
extern "C" int nsim_sys_pthread_cond_wait (pthread_cond_t *c, pthread_mutex_t *m) {
	return nsim_sys_pthread_cond_timedwait (c, m, NULL);
}
extern "C" int nsim_sys_pthread_cond_timedwait (pthread_cond_t *c, pthread_mutex_t *m, const struct timespec *ts) {
	Fibre *f = g.cur;
	PM *pm = (PM *) m;
	bool has_dl = false; int64_t dl = 0;
	if (ts) {
		if (ts->tv_nsec < 0 || ts->tv_nsec >= 1000000000L) return EINVAL;
		if (ts->tv_sec < (time_t) (INT64_MAX / 2000000000LL)) {
			has_dl = true;
			if (ts->tv_sec < -(time_t) (INT64_MAX / 2000000000LL)) dl = INT64_MIN / 2;      /* long before the epoch: expired */
			else dl = (int64_t) ts->tv_sec * 1000000000LL + ts->tv_nsec;
		}
	}
	int res = 0;
	// atomically: release the mutex and register as a waiter on c
	if (nsim_cfg.hb_on) { vc_join (pm_vc ((uintptr_t) m), f->vc); f->vc[f->tid]++; }
	pm->owner = -1;
	for (int i = 0; i < g.nfib; i++) if (g.fib[i].st == F_PMUTEX && g.fib[i].waddr == (uintptr_t) m) wake (&g.fib[i], 0);
	if (has_dl && dl <= g.now) {
		res = ETIMEDOUT;
		sched_point ();
	} else if (choose_fault (CH_F_CONDSPUR)) {
		res = 0x10000;     // spurious wake-up
		sched_point ();
	} else {
		f->waddr = (uintptr_t) c;
		f->has_deadline = has_dl; f->deadline = dl;
		f->fault_kind = 0;
		if (has_dl && choose_fault (CH_F_EARLYTO)) { f->fault_kind = CH_F_EARLYTO; f->fault_step = g.steps + 1 + take_choice (CH_WAKE_PICK, 40, g.replay_mode ? 0 : (int) rnd (g.rng, 40)); }
		f->op_sleeps++; f->total_sleeps++;
		if (has_dl) f->op_last_timed_block_ns = g.now;
		g.futex_blocks++;
		block_current (F_PCOND);
		res = f->wake_res;
	}
	// re-acquire
	while (pm->owner != -1) {
		f->waddr = (uintptr_t) m;
		block_current (F_PMUTEX);
	}
	pm->owner = f->tid;
	if (nsim_cfg.hb_on) vc_join (f->vc, pm_vc ((uintptr_t) m));
	return (res & 0xffff) == ETIMEDOUT ? ETIMEDOUT : 0;
}
extern "C" int nsim_sys_pthread_cond_broadcast (pthread_cond_t *c) {
	for (int i = 0; i < g.nfib; i++) if (g.fib[i].st == F_PCOND && g.fib[i].waddr == (uintptr_t) c) wake (&g.fib[i], 0);
	sched_point ();
	return 0;
}
extern "C" int nsim_sys_pthread_cond_signal (pthread_cond_t *c) {
	for (int i = 0; i < g.nfib; i++) if (g.fib[i].st == F_PCOND && g.fib[i].waddr == (uintptr_t) c) { wake (&g.fib[i], 0); break; }
	sched_point ();
	return 0;
}

// std::condition_variable's out-of-line members (configuration cpp-mutexsem: platform/c++11/src/nsync_semaphore_mutex.cc).  The object
// begins with its pthread_cond_t and std::mutex with its pthread_mutex_t (libstdc++'s layout, asserted below), so these forward to the
// pthread model; std::mutex::lock/unlock and condition_variable::wait_until are inline in the headers and arrive as pthread_* calls.
struct CppUniqueLock { void *device; bool owns; };      // std::unique_lock<std::mutex>
extern "C" void nsim_sys_cpp_cv_ctor (void *cv) { memset (cv, 0, sizeof (pthread_cond_t)); nsim_sys_pthread_cond_init ((pthread_cond_t *) cv, NULL); }
extern "C" void nsim_sys_cpp_cv_dtor (void *cv) { (void) cv; }
extern "C" void nsim_sys_cpp_cv_wait (void *cv, CppUniqueLock *lk) { nsim_sys_pthread_cond_timedwait ((pthread_cond_t *) cv, (pthread_mutex_t *) lk->device, NULL); }
extern "C" void nsim_sys_cpp_cv_notify_all (void *cv) { nsim_sys_pthread_cond_broadcast ((pthread_cond_t *) cv); }
extern "C" void nsim_sys_cpp_cv_notify_one (void *cv) { nsim_sys_pthread_cond_signal ((pthread_cond_t *) cv); }

// POSIX unnamed semaphores (platform/posix/src/nsync_semaphore_sem_t.c): a counting semaphore whose count lives in the
// first word after a magic; sem_post / a successful wait synchronise memory (release / acquire), as POSIX requires.
// Faults: sem_wait / sem_timedwait return EINTR (F1); sem_timedwait returns ETIMEDOUT early (F3), which nsync's loop
// states it tolerates.  glibc order of checks: tv_nsec validity, then the count, then the deadline.
struct PS { uint32_t magic; uint32_t count; };
extern "C" int nsim_sys_sem_init (sem_t *s, int pshared, unsigned value) {
	(void) pshared;
	PS *p = (PS *) s; p->magic = 0x5053; p->count = value;
	return 0;
}
extern "C" int nsim_sys_sem_post (sem_t *s) {
	PS *p = (PS *) s;
	Fibre *f = g.cur;
	sched_point ();
	if (nsim_cfg.hb_on) { vc_join (pm_vc ((uintptr_t) s), f->vc); f->vc[f->tid]++; }
	p->count++;
	hfold (0x9b1ULL << 32 ^ addr_id ((uintptr_t) s));
	futex_wake ((uint32_t *) s, 1);
	return 0;
}
static int sem_wait_common (sem_t *s, const struct timespec *ts) {
	PS *p = (PS *) s;
	Fibre *f = g.cur;
	bool has_dl = false; int64_t dl = 0;
	sched_point ();
	g.futex_waits++;
	if (ts) {
		if (ts->tv_nsec < 0 || ts->tv_nsec >= 1000000000L) { errno = EINVAL; return -1; }
		if (ts->tv_sec < (time_t) (INT64_MAX / 2000000000LL)) {
			has_dl = true;
			if (ts->tv_sec < 0) dl = INT64_MIN / 2;      /* glibc: a negative tv_sec is in the past */
			else dl = (int64_t) ts->tv_sec * 1000000000LL + ts->tv_nsec;
		}
	}
	for (;;) {
		if (p->count > 0) {
			p->count--;
			if (nsim_cfg.hb_on) vc_join (f->vc, pm_vc ((uintptr_t) s));
			hfold (0x9b2ULL << 32 ^ addr_id ((uintptr_t) s));
			return 0;
		}
		if (choose_fault (CH_F_EINTR)) { TRACE ("sem_wait EINTR"); errno = EINTR; return -1; }
		if (has_dl && dl <= g.now) { errno = ETIMEDOUT; return -1; }
		f->waddr = (uintptr_t) s;
		f->has_deadline = has_dl; f->deadline = dl;
		f->fault_kind = 0;
		if (choose_fault (CH_F_SPURIOUS)) { f->fault_kind = CH_F_EINTR; }        /* a signal while blocked */
		else if (has_dl && choose_fault (CH_F_EARLYTO)) { f->fault_kind = CH_F_EARLYTO; }
		if (f->fault_kind) f->fault_step = g.steps + 1 + take_choice (CH_WAKE_PICK, 40, g.replay_mode ? 0 : (int) rnd (g.rng, 40));
		f->op_sleeps++; f->total_sleeps++;
		if (has_dl) f->op_last_timed_block_ns = g.now;
		g.futex_blocks++;
		block_current (F_FUTEX);
		int res = f->wake_res & 0xffff;
		if (res == ETIMEDOUT && p->count == 0) { errno = ETIMEDOUT; return -1; }
		if (res == EINTR && p->count == 0) { errno = EINTR; return -1; }
		/* woken (or a post arrived meanwhile): re-test the count */
	}
}
extern "C" int nsim_sys_sem_wait (sem_t *s) { return sem_wait_common (s, NULL); }
extern "C" int nsim_sys_sem_timedwait (sem_t *s, const struct timespec *ts) { return sem_wait_common (s, ts); }

// ------------------------------------------------------------------------------------------
// Crash handling
static void on_alarm (int sig) {
	(void) sig;
	if (!g.in_run || !g.cur) return;
	rt_violation (NULL, V_NO_PROGRESS, "watchdog", "run used 20 s of CPU time without ending (loop without scheduling points)");
	g.tainted = 1;
	g.verdict = RV_VIOLATION;
	g.in_run = false;
	g.cur = NULL;
	setcontext (&g.main_ctx);
}
static void on_crash (int sig, siginfo_t *si, void *uc) {
	(void) uc;
	if (!g.in_run || !g.cur) {
		static const char m[] = "nsim: crash outside a run\n";
		ssize_t r = write (2, m, sizeof m - 1); (void) r;
		_exit (4);
	}
	Fibre *f = g.cur;
	char sbuf[256];
	uintptr_t pc = 0;
#ifdef __x86_64__
	pc = (uintptr_t) ((ucontext_t *) uc)->uc_mcontext.gregs[REG_RIP];
#endif
	describe_stack (f, pc, sbuf, sizeof sbuf);
	rt_violation (NULL, V_CRASH, rt_symname (pc), "signal %d at address %p in %s", sig, si->si_addr, sbuf);
	g.tainted = 1;
	g.verdict = RV_VIOLATION;
	g.in_run = false;
	g.cur = NULL;
	setcontext (&g.main_ctx);
}

// ------------------------------------------------------------------------------------------
// Run setup
extern "C" char __start_nsyncbss[] __attribute__ ((weak));
extern "C" char __stop_nsyncbss[] __attribute__ ((weak));

void rt_init () {
	load_symbols ();
	void *a = mmap ((void *) ARENA_BASE, ARENA_SIZE, PROT_READ | PROT_WRITE, MAP_PRIVATE | MAP_ANONYMOUS | MAP_FIXED_NOREPLACE, -1, 0);
	void *s = mmap ((void *) STACKS_BASE, (size_t) NSIM_MAXSLOTS * STACK_SIZE, PROT_READ | PROT_WRITE, MAP_PRIVATE | MAP_ANONYMOUS | MAP_FIXED_NOREPLACE, -1, 0);
	if (a != (void *) ARENA_BASE || s != (void *) STACKS_BASE) { perror ("mmap fixed"); _exit (3); }
	add_region (REG_ARENA, ARENA_BASE, ARENA_BASE + ARENA_SIZE);
	add_region (REG_STACK, STACKS_BASE, STACKS_BASE + (uintptr_t) NSIM_MAXSLOTS * STACK_SIZE);
	if (__start_nsyncbss && __stop_nsyncbss > __start_nsyncbss)
		add_region (REG_BSS, (uintptr_t) __start_nsyncbss, (uintptr_t) __stop_nsyncbss);
	// alternate signal stack + handlers
	static char altstack[65536];
	stack_t ss; ss.ss_sp = altstack; ss.ss_size = sizeof altstack; ss.ss_flags = 0;
	sigaltstack (&ss, NULL);
	struct sigaction sa;
	memset (&sa, 0, sizeof sa);
	sa.sa_sigaction = on_crash;
	sa.sa_flags = SA_SIGINFO | SA_ONSTACK | SA_NODEFER;
	sigaction (SIGSEGV, &sa, NULL);
	sigaction (SIGBUS, &sa, NULL);
	sigaction (SIGILL, &sa, NULL);
	sigaction (SIGFPE, &sa, NULL);
	struct sigaction sal;
	memset (&sal, 0, sizeof sal);
	sal.sa_handler = on_alarm;
	sal.sa_flags = SA_ONSTACK | SA_NODEFER;
	sigaction (SIGALRM, &sal, NULL);
	sigaction (SIGVTALRM, &sal, NULL);
	g.stamp = 1;
	g.B1 = 30000; g.B2 = 300000;
	if (getenv ("NSIM_SITES") && !symtab.empty ()) {
		g.text_lo = symtab.front ().lo; g.text_len = symtab.back ().hi - g.text_lo;
		g.site_hit = (unsigned char *) calloc (g.text_len + 1, 1);
	}
	// the one deliberate suppression: waiter_for_thread is an ordinary static without TLS
	g.suppress_addr = sym_addr ("waiter_for_thread");
}

static void pick_policy () {
	Policy &p = g.pol;
	memset (&p, 0, sizeof p);
	uint64_t &r = g.rng;
	int k = rnd (r, 10);
	if (k < 2) p.kind = POL_UNIFORM;
	else if (k < 6) { p.kind = POL_STICKY; static const int qs[] = { 5000, 7000, 8500, 9300, 9800 }; p.q = qs[rnd (r, 5)]; }
	else if (k < 9) {
		p.kind = POL_PCT; p.d = 1 + rnd (r, 4);
		int klen = 200 << rnd (r, 4);
		for (int i = 0; i < p.d - 1; i++) p.change_at[i] = 1 + rnd (r, klen);
		p.low_prio = -1;
	} else { p.kind = POL_RR; p.q = 9000 + rnd (r, 1000); }
	if (g.force_policy >= 0) p.kind = g.force_policy;
	if (nsim_cfg.policy == POL_PRIO) p.kind = POL_PRIO;
	if (nsim_cfg.policy == 5 && (p.kind == POL_PCT || p.kind == POL_RR)) {     // the family needs a fair scheduler: no priority policies
		p.kind = (k & 1) ? POL_UNIFORM : POL_STICKY;
		static const int qs2[] = { 5000, 7000, 8500 };
		p.q = qs2[k % 3];
	}
	// faults: swarm -- a run with no faults at all is one configuration
	int fmode = rnd (r, 4);
	p.max_faults = fmode == 0 ? 0 : (fmode == 1 ? 1 : (fmode == 2 ? 3 : 12));
	static const int rates[] = { 0, 100, 500, 2000 };
	for (int i = 0; i < CH_NKINDS; i++) p.fault_rate[i] = fmode ? rates[rnd (r, 4)] : 0;
	p.fault_rate[CH_F_ALLOC] = fmode ? 2500 : 0;
	static const int jumps[] = { 0, 0, 20, 100, 500 };
	p.p_jump = jumps[rnd (r, 5)];
}

// Coverage builds only: gcov's counters live in the nsync objects' .bss, which is zeroed between runs; they are
// accumulated here word by word and put back just before the counters are dumped.
static uint64_t *cov_acc;
void rt_cov_accumulate () {
	if (!__start_nsyncbss) return;
	size_t n = (__stop_nsyncbss - __start_nsyncbss) / 8;
	if (!cov_acc) cov_acc = (uint64_t *) calloc (n + 1, 8);
	uint64_t *b = (uint64_t *) __start_nsyncbss;
	for (size_t i = 0; i < n; i++) cov_acc[i] += b[i];
}
void rt_dump_sites (const char *path) {
	if (!g.site_hit) return;
	FILE *fp = fopen (path, "w");
	if (!fp) return;
	for (size_t i = 0; i < g.text_len; i++) if (g.site_hit[i]) fprintf (fp, "%lx\n", (unsigned long) (g.text_lo + i));
	fclose (fp);
}
void rt_cov_restore () {
	if (!__start_nsyncbss || !cov_acc) return;
	size_t n = (__stop_nsyncbss - __start_nsyncbss) / 8;
	uint64_t *b = (uint64_t *) __start_nsyncbss;
	for (size_t i = 0; i < n; i++) b[i] = cov_acc[i];
}
extern "C" void __gcov_dump (void) __attribute__ ((weak));
void rt_reset_run (uint64_t seed) {
	g.stamp++;
	if (__gcov_dump) rt_cov_accumulate ();
	if (__start_nsyncbss && __stop_nsyncbss > __start_nsyncbss) memset (__start_nsyncbss, 0, __stop_nsyncbss - __start_nsyncbss);
	if (g.arena_used) memset ((void *) ARENA_BASE, 0, g.arena_used + 64 < ARENA_SIZE ? g.arena_used + 64 : ARENA_SIZE);
	g.arena_used = 0;
	g.blocks.clear ();
	g.nfib = 0; g.cur = NULL;
	g.steps = 0; g.draining = false; g.drained_runs_flag = 0;
	g.start = 1000000LL * 1000000000LL; g.now = g.start;
	g.hash = 0xcbf29ce484222325ULL;
	g.rec.clear ();
	g.replay_pos = 0;
	g.viol.cls = V_NONE; g.viol.msg[0] = 0; g.viol.site[0] = 0; g.viol.prop[0] = 0;
	g.nmus = 0; g.nkeys = 0;
	memset (g.key_dtor, 0, sizeof g.key_dtor);
	memset (g.chan_vc, 0, sizeof g.chan_vc);
	memset (g.faults_fired, 0, sizeof g.faults_fired);
	memset (g.nchoices, 0, sizeof g.nchoices);
	memset (g.probe_hit, 0, sizeof g.probe_hit);
	g.faults_total = 0; g.align_jumps = 0; g.hold_ticks = 0; g.clock_jumps = 0; g.idle_jumps = 0; g.switches = 0; g.switches_in_nsync = 0;
	g.natomics = 0; g.futex_waits = 0; g.futex_blocks = 0; g.futex_wakes = 0; g.nyields = 0; g.nmallocs = 0; g.nfrees = 0;
	g.ctor_allocs = 0; g.nacquires = 0; g.fibres_total = 0;
	g.spin_yields = 0; g.progress_mark = 0;
	g.guard_block = 0;
	memset (g.watch, 0, sizeof g.watch); g.nwatch = 0;
	g.panic_msg[0] = 0;
	g.alloc_failures = 0; g.no_write_window = 0; g.plain_since_sched = 0;
	g.rng = rt_mix (seed, 0x5eed);
	g.gen_rng = rt_mix (seed, 0x6e6e);
	memset (&nsim_cfg, 0, sizeof nsim_cfg);
	nsim_cfg.fault_mask = 0;
	nsim_cfg.hb_on = 1;
	nsim_cfg.mu_wlock = 1; nsim_cfg.mu_rlock_field = ~0xffu; nsim_cfg.mu_spinlock = 2;
}

// Runs the current scenario of family fam under the current choice source.  Returns verdict.
int rt_run (const struct nsim_family *fam) {
	pick_policy ();
	g.verdict = -1;
	g.in_run = true;
	volatile int started = 0;
	// watchdog on the CPU time this process spends in user mode (not wall-clock time: a loaded or briefly suspended
	// machine must never turn into a verdict); it only fires for a loop that reaches no scheduling point
	{ struct itimerval it; memset (&it, 0, sizeof it); it.it_value.tv_sec = 20; setitimer (ITIMER_VIRTUAL, &it, NULL); }
	getcontext (&g.main_ctx);
	if (!started) {
		started = 1;
		nsim_spawn (fam->controller, NULL);
		switch_to (&g.fib[0]);
		abort ();
	}
	g.in_run = false;
	g.cur = NULL;
	{ struct itimerval it; memset (&it, 0, sizeof it); setitimer (ITIMER_VIRTUAL, &it, NULL); }
	return g.verdict;
}
