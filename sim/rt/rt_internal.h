// rt_internal.h -- shared between rt.cc and driver.cc (uninstrumented C++)
#ifndef RT_INTERNAL_H_
#define RT_INTERNAL_H_
#include "nsim.h"
#include <stdarg.h>
#include <stdint.h>
#include <stdio.h>
#include <ucontext.h>
#include <setjmp.h>
#include <pthread.h>
#include <vector>

#define ARENA_BASE   0x10000000000ULL
#define ARENA_SIZE   (1u << 20)
#define STACKS_BASE  0x10100000000ULL
#define STACK_SIZE   (128u << 10)
#define MAXFSTACK 64
#define MAXKEYS 4
#define MAXMUS 48
#define NSYNCVARS 2048
#define MAXPROBES 48
#define TICK_NS 10
#define YIELD_NS 1000
#define CLOCKREAD_NS 40

enum FState { F_FREE = 0, F_RUNNABLE, F_FUTEX, F_PMUTEX, F_PCOND, F_PRED, F_QUIESCE, F_JOIN, F_DONE, F_SLEEP };
enum { REG_ARENA = 0, REG_STACK = 1, REG_BSS = 2 };
enum { POL_UNIFORM = 0, POL_STICKY = 1, POL_PCT = 2, POL_RR = 3, POL_PRIO = 4 };
enum { P_DEAD = 0, P_TOLERATED_DEAD_READ = 1 };   // runtime-owned probe ids start at 0; harness probes start at 8

struct Cell {
	uint32_t stamp;
	uint8_t live, w_atomic, w_tid, w_reclaim;
	uint32_t w_clk, w_pc;
	uint16_t r_mask, r_atomic_mask;
	uint32_t r_clk[NSIM_MAXF];
	uint32_t r_pc[NSIM_MAXF];
};
struct Region { int kind; uintptr_t lo, hi; Cell *cells; };
struct SyncVar { uint32_t stamp; bool has; uintptr_t addr; uint32_t L[NSIM_MAXF]; };
struct MuModel { uintptr_t addr; int writer; int nreaders; int rd[NSIM_MAXSLOTS]; };
struct Block { uintptr_t p; size_t n; };

struct Fibre {
	ucontext_t ctx;
	jmp_buf jb; int jb_valid;      /* after its first entry a fibre is resumed with _longjmp: swapcontext costs two sigprocmask system calls per switch */
	int tid;
	FState st;
	uintptr_t waddr;
	int64_t deadline; bool has_deadline;
	int wake_res;
	int64_t fault_step; int fault_kind;
	int (*pred) (void *); void *pred_arg;
	int join_tid;
	int quiesce_ok;
	uint32_t vc[NSIM_MAXF];
	uint32_t exit_vc[NSIM_MAXF];
	void (*fn) (void *); void *arg;
	void *tls_val[MAXKEYS];
	void *emu_key[4]; char emu_data[4][16] __attribute__ ((aligned (16)));   /* emulated __thread variables of the simulated code */
	uintptr_t fstack[MAXFSTACK]; int fdepth;
	uintptr_t fself[MAXFSTACK];      /* a PC inside each entered function (parallel to fstack, which holds call sites) */
	uintptr_t last_entered;
	uintptr_t stack_lo, stack_hi, saved_sp, min_sp, op_sp_top;
	int ignore_depth;
	const char *opname;
	int op_sleeps, op_atomics, op_idle_jumps;
	int total_sleeps;
	int alloc_failures, no_write_window;
	int64_t op_last_timed_block_ns;
	int aw_slot; const char *aw_func;   /* armed auto-watch: the next atomic store by this fibre in a function whose name contains aw_func starts watch aw_slot on its address */
	int64_t op_last_timer_wake_ns;      /* virtual time at which this fibre was last released by its own timer in this op, -1 none */
};

struct Policy {
	int kind; int q; int d;
	int64_t change_at[8];
	int prio[NSIM_MAXSLOTS]; int low_prio;
	int max_faults; int fault_rate[CH_NKINDS]; int p_jump;
};

struct Violation { int cls; char prop[8]; char site[160]; char msg[640]; int64_t step; };

struct G {
	Fibre fib[NSIM_MAXSLOTS]; int nfib;
	Fibre *cur;
	ucontext_t main_ctx;
	bool in_run;
	int verdict;
	int tainted;
	int64_t steps, B1, B2;
	bool draining; int drained_runs_flag;
	int64_t now, start;
	uint64_t hash;
	uint64_t rng, gen_rng;
	bool replay_mode;
	std::vector<uint16_t> replay; size_t replay_pos;
	std::vector<uint16_t> rec;
	Policy pol; int force_policy;
	Violation viol;
	// memory
	Region regions[4]; int nregions;
	uint32_t stamp;
	size_t arena_used;
	std::vector<Block> blocks;
	SyncVar sync[NSYNCVARS];
	SyncVar psync[NSYNCVARS];
	uint32_t chan_vc[16][NSIM_MAXF];
	MuModel mus[MAXMUS]; int nmus;
	uintptr_t guard_buf, guard_block; size_t guard_n, guard_blocklen;
	uintptr_t suppress_addr;
	// tls keys
	void (*key_dtor[MAXKEYS]) (void *); int nkeys;
	// stats of the current run
	int64_t faults_fired[CH_NKINDS + 4]; int faults_total;
	int64_t nchoices[CH_NKINDS];
	int64_t probe_hit[MAXPROBES];
	int align_jumps, hold_ticks;
	int64_t clock_jumps, idle_jumps, switches, switches_in_nsync, natomics, futex_waits, futex_blocks, futex_wakes, nyields,
		nmallocs, nfrees, ctor_allocs, nacquires, fibres_total;
	int64_t spin_yields, progress_mark;
	char panic_msg[200];
	long long run_index; uint64_t base_seed;
	int alloc_failures; int no_write_window;
	int64_t plain_since_sched; int64_t limit_hits;
	unsigned char *site_hit; uintptr_t text_lo; size_t text_len;
	int tracing; FILE *trace_fp;
	struct { uintptr_t addr; int first_tid; int active; } watch[NSIM_MAXWATCH]; int nwatch;
};
extern G g;

uint64_t rt_mix (uint64_t a, uint64_t b);
const char *rt_symname (uintptr_t pc);
const char *rt_class_name (int cls);
void rt_violation (const char *prop, int cls, const char *site, const char *fmt, ...) __attribute__ ((format (printf, 4, 5)));
void rt_violation_v (const char *prop, int cls, const char *site, const char *fmt, va_list ap);
void rt_init ();
void rt_cov_accumulate ();
void rt_cov_restore ();
void rt_dump_sites (const char *path);
void rt_reset_run (uint64_t seed);
int rt_run (const struct nsim_family *fam);
int64_t rt_cpp_now ();
bool rt_in_run ();
#endif
